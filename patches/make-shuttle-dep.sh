#!/bin/sh
# S3: make a copy of the exact simplicity-lang version named in /repo/Cargo.lock whose two Mutex
# imports come from shuttle.  Every rewrite must hit exactly once, otherwise: harness error (exit 2).
set -eu
LOCK=${1:-/repo/Cargo.lock}
DEST="$(cd "$(dirname "$0")/.." && pwd)/build/simplicity-lang-shuttle"
VER=$(awk '/^name = "simplicity-lang"$/ {getline; gsub(/version = |"/, ""); print; exit}' "$LOCK")
[ -n "$VER" ] || { echo "make-shuttle-dep: simplicity-lang not found in $LOCK" >&2; exit 2; }
SRC=$(ls -d "$HOME"/.cargo/registry/src/*/simplicity-lang-"$VER" 2>/dev/null | head -1)
[ -d "$SRC" ] || { echo "make-shuttle-dep: registry source of simplicity-lang $VER not found" >&2; exit 2; }
STAMP="$DEST/.simseam-stamp"
if [ -f "$STAMP" ] && [ "$(cat "$STAMP")" = "$VER" ]; then exit 0; fi
rm -rf "$DEST"
mkdir -p "$(dirname "$DEST")"
cp -r "$SRC" "$DEST"
rm -f "$DEST/.cargo-checksum.json" "$DEST/Cargo.lock" "$DEST/Cargo.toml.orig"
once() { # file, exact line, replacement
  n=$(grep -cxF "$2" "$1" || true)
  [ "$n" = "1" ] || { echo "make-shuttle-dep: expected exactly one '$2' in $1, found $n" >&2; exit 2; }
  python3 - "$1" "$2" "$3" <<'PY'
import sys
p, old, new = sys.argv[1:4]
s = open(p).read().split("\n")
s = [new if l == old else l for l in s]
open(p, "w").write("\n".join(s))
PY
}
once "$DEST/src/types/context.rs" 'use std::sync::{Arc, Mutex, MutexGuard};' 'use std::sync::Arc; use shuttle::sync::{Mutex, MutexGuard};'
once "$DEST/src/types/union_bound.rs" 'use std::sync::{Arc, Mutex};' 'use std::sync::Arc; use shuttle::sync::Mutex;'
printf '\n[dependencies.shuttle]\nversion = "0.9.3"\n' >> "$DEST/Cargo.toml"
echo "$VER" > "$STAMP"
echo "make-shuttle-dep: simplicity-lang $VER -> $DEST"
