//! simsched: leg B of C19 - concurrent callers on shared handles under a scheduler we own.
//!
//! Real simfony, real simplicity-lang except that the `Mutex` of its type-inference context and of
//! its union-bound cells is `shuttle::sync::Mutex` (the only synchronisation points through which
//! two caller threads can observe each other).  Caller threads are shuttle tasks.

mod sched;

use sched::{Kind, SimScheduler, Trace, STAY};
use simcore::corpus::{build, Case, CorpusSpec};
use simcore::digest::fnv1a;
use simcore::ops::{self, Outcome};
use simcore::prng::{mix, tag, Prng};
use simcore::report::Report;
use simcore::{golden_from_json, sizes, Golden};
use simfony::{CompiledProgram, TemplateProgram};
use std::path::PathBuf;
use std::sync::{Arc, Mutex};

const STACK: usize = 64 << 20;

#[derive(Clone, Debug, PartialEq)]
pub enum Shared {
    /// a compiled program built by the root task; `precommit` = root calls commit() before sharing
    Compiled { case: usize, args: usize, debug: bool, precommit: bool },
    Template { case: usize },
    /// a compiled program instantiated by the root task from shared template `tmpl`
    /// (the template and the program stay alive side by side and share whatever they share)
    Derived { tmpl: usize, case: usize, args: usize, debug: bool },
}

#[derive(Clone, Debug, PartialEq)]
pub enum TaskOp {
    Commit { obj: usize },
    CommitClone { obj: usize },
    Satisfy { obj: usize },
    InstantiateCommit { obj: usize, args: usize, debug: bool },
    CompileCommit { case: usize, args: usize, debug: bool },
    /// clone the shared handle, drop the clone (reference counts move, nothing else)
    CloneDrop { obj: usize },
    /// instantiate from the shared template and keep the program alive until the task ends
    InstantiateKeep { obj: usize, args: usize, debug: bool },
}

#[derive(Clone, Debug)]
pub struct Scenario {
    pub shared: Vec<Shared>,
    pub tasks: Vec<Vec<TaskOp>>,
}

impl Scenario {
    fn to_json(&self) -> serde_json::Value {
        use serde_json::json;
        json!({
            "shared": self.shared.iter().map(|s| match s {
                Shared::Compiled { case, args, debug, precommit } => json!({"kind": "Compiled", "case": case, "args": args, "debug": debug, "precommit": precommit}),
                Shared::Template { case } => json!({"kind": "Template", "case": case}),
                Shared::Derived { tmpl, case, args, debug } => json!({"kind": "Derived", "tmpl": tmpl, "case": case, "args": args, "debug": debug}),
            }).collect::<Vec<_>>(),
            "tasks": self.tasks.iter().map(|t| t.iter().map(|op| match op {
                TaskOp::Commit { obj } => json!({"op": "Commit", "obj": obj}),
                TaskOp::CommitClone { obj } => json!({"op": "CommitClone", "obj": obj}),
                TaskOp::Satisfy { obj } => json!({"op": "Satisfy", "obj": obj}),
                TaskOp::InstantiateCommit { obj, args, debug } => json!({"op": "InstantiateCommit", "obj": obj, "args": args, "debug": debug}),
                TaskOp::CompileCommit { case, args, debug } => json!({"op": "CompileCommit", "case": case, "args": args, "debug": debug}),
                TaskOp::CloneDrop { obj } => json!({"op": "CloneDrop", "obj": obj}),
                TaskOp::InstantiateKeep { obj, args, debug } => json!({"op": "InstantiateKeep", "obj": obj, "args": args, "debug": debug}),
            }).collect::<Vec<_>>()).collect::<Vec<_>>(),
        })
    }
    fn from_json(v: &serde_json::Value) -> Option<Scenario> {
        let u = |x: &serde_json::Value, k: &str| x.get(k).and_then(|y| y.as_u64()).map(|y| y as usize);
        let b = |x: &serde_json::Value, k: &str| x.get(k).and_then(|y| y.as_bool());
        let mut shared = Vec::new();
        for s in v.get("shared")?.as_array()? {
            shared.push(match s.get("kind")?.as_str()? {
                "Compiled" => Shared::Compiled { case: u(s, "case")?, args: u(s, "args")?, debug: b(s, "debug")?, precommit: b(s, "precommit")? },
                "Template" => Shared::Template { case: u(s, "case")? },
                "Derived" => Shared::Derived { tmpl: u(s, "tmpl")?, case: u(s, "case")?, args: u(s, "args")?, debug: b(s, "debug")? },
                _ => return None,
            });
        }
        let mut tasks = Vec::new();
        for t in v.get("tasks")?.as_array()? {
            let mut ops = Vec::new();
            for o in t.as_array()? {
                ops.push(match o.get("op")?.as_str()? {
                    "Commit" => TaskOp::Commit { obj: u(o, "obj")? },
                    "CommitClone" => TaskOp::CommitClone { obj: u(o, "obj")? },
                    "Satisfy" => TaskOp::Satisfy { obj: u(o, "obj")? },
                    "InstantiateCommit" => TaskOp::InstantiateCommit { obj: u(o, "obj")?, args: u(o, "args")?, debug: b(o, "debug")? },
                    "CompileCommit" => TaskOp::CompileCommit { case: u(o, "case")?, args: u(o, "args")?, debug: b(o, "debug")? },
                    "CloneDrop" => TaskOp::CloneDrop { obj: u(o, "obj")? },
                    "InstantiateKeep" => TaskOp::InstantiateKeep { obj: u(o, "obj")?, args: u(o, "args")?, debug: b(o, "debug")? },
                    _ => return None,
                });
            }
            tasks.push(ops);
        }
        Some(Scenario { shared, tasks })
    }
    /// canonical scenario string (used in reports and in known_findings.txt)
    fn canonical(&self) -> String {
        let sh = |i: usize| match &self.shared[i] {
            Shared::Compiled { precommit: true, .. } => "shared-committed",
            Shared::Compiled { .. } => "shared",
            Shared::Template { .. } => "template",
            Shared::Derived { .. } => "shared-from-template",
        };
        let mut tasks: Vec<String> = self
            .tasks
            .iter()
            .map(|t| {
                t.iter()
                    .map(|op| match op {
                        TaskOp::Commit { obj } => format!("Commit({})", sh(*obj)),
                        TaskOp::CommitClone { obj } => format!("Commit(clone_of_{})", sh(*obj)),
                        TaskOp::Satisfy { obj } => format!("Satisfy({})", sh(*obj)),
                        TaskOp::InstantiateCommit { obj, .. } => format!("Instantiate({});Commit", sh(*obj)),
                        TaskOp::CompileCommit { .. } => "Compile;Commit".to_string(),
                        TaskOp::CloneDrop { obj } => format!("Clone;Drop({})", sh(*obj)),
                        TaskOp::InstantiateKeep { obj, .. } => format!("Instantiate({});Commit;Keep", sh(*obj)),
                    })
                    .collect::<Vec<_>>()
                    .join(";")
            })
            .collect();
        tasks.sort();
        tasks.join(" || ")
    }
}

/// One observation made by a task.
#[derive(Clone, Debug)]
pub struct Obs {
    pub task: usize,
    pub idx: usize,
    pub what: String,
    /// key of the reference table this observation is compared with (None: observed, not judged)
    pub want: Option<(usize, usize, bool)>,
    pub got: Outcome,
    pub note: String,
}

enum Obj {
    Compiled(Option<Arc<CompiledProgram>>, usize, usize, bool),
    Template(Option<Arc<TemplateProgram>>, usize),
}

/// The body that runs inside shuttle: root builds, spawns, joins.
fn body(sc: &Scenario, cases: &[Case], sink: &Arc<Mutex<Vec<Obs>>>) {
    let mut objs: Vec<Arc<Obj>> = Vec::new();
    for s in &sc.shared {
        match s {
            Shared::Compiled { case, args, debug, precommit } => {
                let c = &cases[*case];
                let a = c.args.get(*args).cloned().unwrap_or_else(|| "{}".into());
                let (o, prog) = match ops::parse_args(&a) {
                    Err(e) => (Outcome::Err(e), None),
                    Ok(parsed) => match ops::guarded(|| CompiledProgram::new(Arc::clone(&c.text), parsed, *debug)) {
                        Err(p) => (Outcome::Panic(p), None),
                        Ok(Err(e)) => (Outcome::Err(e), None),
                        Ok(Ok(p)) => (Outcome::Ok { bytes: vec![], cmr: [0; 32] }, Some(p)),
                    },
                };
                if prog.is_none() {
                    // verdict of the failed build is judged against the table
                    sink.lock().unwrap().push(Obs { task: 0, idx: objs.len(), what: format!("root:Compile({})", c.id), want: Some((*case, *args, *debug)), got: o, note: String::new() });
                }
                if let (Some(p), true) = (&prog, *precommit) {
                    let got = ops::observe_commit(p);
                    sink.lock().unwrap().push(Obs { task: 0, idx: objs.len(), what: format!("root:Commit({})", c.id), want: Some((*case, *args, *debug)), got, note: String::new() });
                }
                objs.push(Arc::new(Obj::Compiled(prog.map(Arc::new), *case, *args, *debug)));
            }
            Shared::Template { case } => {
                let c = &cases[*case];
                let t = match ops::new_template(&c.text) {
                    Ok(Ok(t)) => Some(Arc::new(t)),
                    _ => None,
                };
                objs.push(Arc::new(Obj::Template(t, *case)));
            }
            Shared::Derived { tmpl, case, args, debug } => {
                let prog = match objs.get(*tmpl).map(|o| &**o) {
                    Some(Obj::Template(Some(t), _)) => match cases[*case].args.get(*args) {
                        Some(a) => match ops::instantiate(t, a, *debug) {
                            Ok(Ok(p)) => Some(Arc::new(p)),
                            _ => None,
                        },
                        None => None,
                    },
                    _ => None,
                };
                objs.push(Arc::new(Obj::Compiled(prog, *case, *args, *debug)));
            }
        }
    }
    let cases_arc: Arc<Vec<Case>> = Arc::new(cases.to_vec());
    let mut handles = Vec::new();
    for (ti, tops) in sc.tasks.iter().enumerate() {
        let tops = tops.clone();
        let objs = objs.clone();
        let sink = Arc::clone(sink);
        let cases = Arc::clone(&cases_arc);
        handles.push(shuttle::thread::spawn(move || {
            let mut kept: Vec<CompiledProgram> = Vec::new();
            for (oi, op) in tops.iter().enumerate() {
                let push = |what: String, want: Option<(usize, usize, bool)>, got: Outcome, note: String| {
                    sink.lock().unwrap().push(Obs { task: ti + 1, idx: oi, what, want, got, note });
                };
                match op {
                    TaskOp::Commit { obj } | TaskOp::CommitClone { obj } => {
                        if let Some(Obj::Compiled(Some(p), case, args, debug)) = objs.get(*obj).map(|o| &**o) {
                            let is_clone = matches!(op, TaskOp::CommitClone { .. });
                            let got = if is_clone {
                                let mine: CompiledProgram = (**p).clone();
                                ops::observe_commit(&mine)
                            } else {
                                ops::observe_commit(p)
                            };
                            push(format!("{}({})", if is_clone { "CommitClone" } else { "Commit" }, cases[*case].id), Some((*case, *args, *debug)), got, String::new());
                        }
                    }
                    TaskOp::Satisfy { obj } => {
                        if let Some(Obj::Compiled(Some(p), case, _, _)) = objs.get(*obj).map(|o| &**o) {
                            if let Some(w) = &cases[*case].witness {
                                let k = ops::observe_satisfy(p, w);
                                let got = if k == "panic" { Outcome::Panic(ops::last_panic()) } else { Outcome::Err(String::new()) };
                                // satisfy is observed; only a panic is material (it poisons the handle)
                                push(format!("Satisfy({})", cases[*case].id), None, got, k);
                            }
                        }
                    }
                    TaskOp::InstantiateCommit { obj, args, debug } => {
                        if let Some(Obj::Template(Some(t), case)) = objs.get(*obj).map(|o| &**o) {
                            let c = &cases[*case];
                            if let Some(a) = c.args.get(*args) {
                                let got = match ops::instantiate(t, a, *debug) {
                                    Err(p) => Outcome::Panic(p),
                                    Ok(Err(e)) => Outcome::Err(e),
                                    Ok(Ok(p)) => ops::observe_commit(&p),
                                };
                                push(format!("InstantiateCommit({},a={args},d={debug})", c.id), Some((*case, *args, *debug)), got, String::new());
                            }
                        }
                    }
                    TaskOp::CompileCommit { case, args, debug } => {
                        let c = &cases[*case];
                        if let Some(a) = c.args.get(*args) {
                            let (got, _) = ops::compile_direct(&c.text, a, *debug);
                            push(format!("CompileCommit({},a={args},d={debug})", c.id), Some((*case, *args, *debug)), got, String::new());
                        }
                    }
                    TaskOp::CloneDrop { obj } => match objs.get(*obj).map(|o| &**o) {
                        Some(Obj::Compiled(Some(p), ..)) => {
                            let c: CompiledProgram = (**p).clone();
                            drop(c);
                        }
                        Some(Obj::Template(Some(t), _)) => {
                            let c: TemplateProgram = (**t).clone();
                            drop(c);
                        }
                        _ => {}
                    },
                    TaskOp::InstantiateKeep { obj, args, debug } => {
                        if let Some(Obj::Template(Some(t), case)) = objs.get(*obj).map(|o| &**o) {
                            let c = &cases[*case];
                            if let Some(a) = c.args.get(*args) {
                                let got = match ops::instantiate(t, a, *debug) {
                                    Err(p) => Outcome::Panic(p),
                                    Ok(Err(e)) => Outcome::Err(e),
                                    Ok(Ok(p)) => {
                                        let o = ops::observe_commit(&p);
                                        kept.push(p);
                                        o
                                    }
                                };
                                push(format!("InstantiateKeep({},a={args},d={debug})", c.id), Some((*case, *args, *debug)), got, String::new());
                            }
                        }
                    }
                }
            }
            drop(kept);
        }));
    }
    for h in handles {
        let _ = h.join();
    }
}

pub struct RunResult {
    pub obs: Vec<Obs>,
    pub trace: Trace,
    /// Some(message) when shuttle itself stopped the execution (deadlock, step budget)
    pub aborted: Option<String>,
}

/// Hash seed (S1) under which the next executions run; every execution runs on a fresh OS thread
/// after reseeding the shim, so leg B varies hash seeds together with schedules.
pub static HASH_SEED: std::sync::atomic::AtomicU64 = std::sync::atomic::AtomicU64::new(0);
/// How argument maps are constructed during the next executions (ops::set_arg_route).
pub static ARG_ROUTE: std::sync::atomic::AtomicU64 = std::sync::atomic::AtomicU64::new(0);

pub fn execute(sc: &Scenario, cases: &[Case], kind: Kind, seed: u64, max_steps: usize) -> RunResult {
    let hs = HASH_SEED.load(std::sync::atomic::Ordering::SeqCst);
    if simcore::seam::present() {
        simcore::seam::epoch(hs, move || execute_here(sc, cases, kind, seed, max_steps))
    } else {
        execute_here(sc, cases, kind, seed, max_steps)
    }
}

fn execute_here(sc: &Scenario, cases: &[Case], kind: Kind, seed: u64, max_steps: usize) -> RunResult {
    ops::set_arg_route(ARG_ROUTE.load(std::sync::atomic::Ordering::SeqCst) as u8);
    let trace = Arc::new(Mutex::new(Trace::default()));
    let sink: Arc<Mutex<Vec<Obs>>> = Arc::new(Mutex::new(Vec::new()));
    let scheduler = SimScheduler::new(kind, seed, Arc::clone(&trace));
    let mut cfg = shuttle::Config::new();
    cfg.stack_size = STACK;
    cfg.failure_persistence = shuttle::FailurePersistence::None;
    cfg.max_steps = shuttle::MaxSteps::ContinueAfter(max_steps);
    cfg.silence_warnings = true;
    let runner = shuttle::Runner::new(scheduler, cfg);
    let sc2 = sc.clone();
    let cases2: Vec<Case> = cases.to_vec();
    let sink2 = Arc::clone(&sink);
    let r = std::panic::catch_unwind(std::panic::AssertUnwindSafe(move || {
        runner.run(move || body(&sc2, &cases2, &sink2));
    }));
    let aborted = match r {
        Ok(()) => None,
        Err(_) => Some(ops::last_panic()),
    };
    let obs = sink.lock().unwrap().clone();
    let trace = trace.lock().unwrap().clone();
    RunResult { obs, trace, aborted }
}

pub struct Viol {
    pub class: String,
    pub detail: String,
    pub expected: serde_json::Value,
    pub observed: serde_json::Value,
}

/// Judge one run against the sequential reference table.
pub fn judge(sc: &Scenario, r: &RunResult, reference: &dyn Fn(usize, usize, bool) -> Option<Outcome>, max_steps: usize) -> Result<Option<Viol>, String> {
    if let Some(msg) = &r.aborted {
        if msg.to_lowercase().contains("deadlock") {
            return Ok(Some(Viol {
                class: "DEADLOCK".into(),
                detail: format!("all unfinished tasks are blocked: {msg}"),
                expected: serde_json::json!("every call returns"),
                observed: serde_json::json!(msg),
            }));
        }
        return Err(format!("shuttle aborted the run: {msg}"));
    }
    let expected_obs: usize = sc.tasks.iter().map(|t| t.len()).sum();
    let got_obs = r.obs.iter().filter(|o| o.task > 0).count();
    if r.trace.steps as usize >= max_steps {
        return Err("step budget exceeded (inconclusive)".into());
    }
    let _ = (expected_obs, got_obs);
    for o in &r.obs {
        match (&o.want, &o.got) {
            (Some((c, a, d)), got) => {
                let Some(want) = reference(*c, *a, *d) else { continue };
                if let Outcome::Panic(_) = want {
                    continue;
                }
                if want.key() != got.key() {
                    let class = if let Outcome::Panic(_) = got { format!("PANIC({})", opname(&o.what)) } else { format!("MISMATCH({})", opname(&o.what)) };
                    return Ok(Some(Viol {
                        class,
                        detail: format!("task {} op {} {}: sequential reference {} observed {}{}", o.task, o.idx, o.what, want.key(), got.key(),
                            if let Outcome::Panic(p) = got { format!(" ({p})") } else { String::new() }),
                        expected: want.to_json(),
                        observed: got.to_json(),
                    }));
                }
            }
            (None, Outcome::Panic(p)) => {
                return Ok(Some(Viol {
                    class: format!("PANIC({})", opname(&o.what)),
                    detail: format!("task {} op {} {} panicked: {p}", o.task, o.idx, o.what),
                    expected: serde_json::json!("no panic"),
                    observed: o.got.to_json(),
                }));
            }
            _ => {}
        }
    }
    Ok(None)
}

fn opname(what: &str) -> &str {
    what.split('(').next().unwrap_or(what)
}

fn draw_scenario(rng: &mut Prng, cases: &[Case]) -> Scenario {
    let mut shared = Vec::new();
    let n_shared = rng.range(1, 2);
    for _ in 0..n_shared {
        let case = rng.below(cases.len());
        if rng.below(4) == 0 {
            shared.push(Shared::Template { case });
        } else {
            let args = rng.below(cases[case].args.len());
            // biased to the interesting moment: the handle has just been created
            shared.push(Shared::Compiled { case, args, debug: rng.coin(), precommit: rng.below(5) == 0 });
        }
    }
    // a program instantiated from a shared template, shared as well
    let templates: Vec<(usize, usize)> = shared.iter().enumerate().filter_map(|(i, s)| if let Shared::Template { case } = s { Some((i, *case)) } else { None }).collect();
    if let Some((ti, case)) = templates.first().copied() {
        if rng.coin() {
            let args = rng.below(cases[case].args.len());
            shared.push(Shared::Derived { tmpl: ti, case, args, debug: rng.coin() });
        }
    }
    let n_tasks = if rng.below(8) == 0 { 4 } else { rng.range(2, 3) };
    let mut tasks = Vec::new();
    for _ in 0..n_tasks {
        let n_ops = rng.range(1, 3);
        let mut ops = Vec::new();
        for _ in 0..n_ops {
            let obj = rng.below(shared.len());
            let op = match &shared[obj] {
                Shared::Template { case } => {
                    let args = rng.below(cases[*case].args.len());
                    match rng.below(6) {
                        0 => TaskOp::CloneDrop { obj },
                        1 | 2 => TaskOp::InstantiateKeep { obj, args, debug: rng.coin() },
                        _ => TaskOp::InstantiateCommit { obj, args, debug: rng.coin() },
                    }
                }
                Shared::Compiled { case, .. } | Shared::Derived { case, .. } => match rng.below(11) {
                    10 => TaskOp::CloneDrop { obj },
                    0..=4 => TaskOp::Commit { obj },
                    5 | 6 => TaskOp::CommitClone { obj },
                    7 => TaskOp::Satisfy { obj },
                    _ => {
                        let args = rng.below(cases[*case].args.len());
                        TaskOp::CompileCommit { case: *case, args, debug: rng.coin() }
                    }
                },
            };
            ops.push(op);
        }
        tasks.push(ops);
    }
    Scenario { shared, tasks }
}

struct Opts {
    seed: u64,
    tier: String,
    shard: usize,
    shards: usize,
    out: PathBuf,
    repo: PathBuf,
    verif: PathBuf,
    rest: Vec<String>,
}

fn parse_opts(args: &[String]) -> Opts {
    let mut o = Opts {
        seed: simcore::DEFAULT_SEED,
        tier: "quick".into(),
        shard: 0,
        shards: 1,
        out: PathBuf::from("/verif/build/out"),
        repo: PathBuf::from("/repo"),
        verif: PathBuf::from("/verif"),
        rest: Vec::new(),
    };
    let mut i = 0;
    while i < args.len() {
        let a = args[i].clone();
        let mut val = || {
            i += 1;
            args.get(i).cloned().unwrap_or_else(|| std::process::exit(2))
        };
        match a.as_str() {
            "--seed" => o.seed = val().parse().unwrap_or_else(|_| std::process::exit(2)),
            "--tier" => o.tier = val(),
            "--shard" => {
                let v = val();
                let (x, y) = v.split_once('/').unwrap_or_else(|| std::process::exit(2));
                o.shard = x.parse().unwrap();
                o.shards = y.parse().unwrap();
            }
            "--out" => o.out = PathBuf::from(val()),
            "--repo" => o.repo = PathBuf::from(val()),
            "--verif" => o.verif = PathBuf::from(val()),
            _ => o.rest.push(a),
        }
        i += 1;
    }
    o
}

fn load_golden(o: &Opts) -> Option<Golden> {
    let text = std::fs::read_to_string(o.out.join("golden.json")).ok()?;
    let v: serde_json::Value = serde_json::from_str(&text).ok()?;
    golden_from_json(v.get("table")?)
}

fn kind_json(k: &Kind) -> serde_json::Value {
    match k {
        Kind::RandomWalk { switch_permille } => serde_json::json!({"kind": "random-walk", "switch_permille": switch_permille}),
        Kind::Pct { points } => serde_json::json!({"kind": "pct", "points": points}),
        Kind::Replay { decisions } => serde_json::json!({"kind": "replay", "decisions": decisions.len()}),
        Kind::Focus { park_permille, park_steps } => serde_json::json!({"kind": "focus", "park_permille": park_permille, "park_steps": park_steps}),
    }
}

/// Greedy minimisation of a failing run: fewer tasks, fewer ops, fewer context switches.
fn minimise(
    sc: &Scenario,
    cases: &[Case],
    decisions: &[u32],
    class: &str,
    reference: &dyn Fn(usize, usize, bool) -> Option<Outcome>,
    max_steps: usize,
    budget: &mut usize,
) -> (Scenario, Vec<u32>, serde_json::Value) {
    let fails = |sc: &Scenario, dec: &[u32], budget: &mut usize| -> Option<Vec<u32>> {
        if *budget == 0 {
            return None;
        }
        *budget -= 1;
        let r = execute(sc, cases, Kind::Replay { decisions: dec.to_vec() }, 0, max_steps);
        match judge(sc, &r, reference, max_steps) {
            Ok(Some(v)) if v.class == class => Some(r.trace.decisions.clone()),
            _ => None,
        }
    };
    let before = (sc.tasks.len(), sc.tasks.iter().map(|t| t.len()).sum::<usize>(), switches(decisions));
    let mut best_sc = sc.clone();
    let mut best_dec = decisions.to_vec();
    // 1. structure: dropping a task or an op changes the meaning of the decision list, so the
    //    candidate is searched again with a few simple schedules
    let simple: Vec<Kind> = vec![
        Kind::RandomWalk { switch_permille: 1000 },
        Kind::RandomWalk { switch_permille: 500 },
        Kind::RandomWalk { switch_permille: 100 },
        Kind::RandomWalk { switch_permille: 20 },
        Kind::Focus { park_permille: 500, park_steps: 1_000_000 },
    ];
    let mut progress = true;
    while progress && *budget > 0 {
        progress = false;
        let mut cands: Vec<Scenario> = Vec::new();
        for ti in 0..best_sc.tasks.len() {
            if best_sc.tasks.len() > 1 {
                let mut c = best_sc.clone();
                c.tasks.remove(ti);
                cands.push(c);
            }
            for oi in 0..best_sc.tasks[ti].len() {
                if best_sc.tasks[ti].len() > 1 {
                    let mut c = best_sc.clone();
                    c.tasks[ti].remove(oi);
                    cands.push(c);
                }
            }
        }
        'cand: for c in cands {
            for (ki, k) in simple.iter().enumerate() {
                for s in 0..4u64 {
                    if *budget == 0 {
                        break 'cand;
                    }
                    *budget -= 1;
                    let r = execute(&c, cases, k.clone(), mix(s ^ ki as u64), max_steps);
                    if let Ok(Some(v)) = judge(&c, &r, reference, max_steps) {
                        if v.class == class {
                            best_sc = c;
                            best_dec = r.trace.decisions.clone();
                            progress = true;
                            break 'cand;
                        }
                    }
                }
            }
        }
    }
    // 2. schedule: cut the tail, then turn switches into STAY one at a time
    let mut lo = 0usize;
    let mut hi = best_dec.len();
    while lo < hi && *budget > 0 {
        let mid = (lo + hi) / 2;
        if let Some(_) = fails(&best_sc, &best_dec[..mid], budget) {
            hi = mid;
        } else {
            lo = mid + 1;
        }
    }
    if hi < best_dec.len() {
        if fails(&best_sc, &best_dec[..hi], budget).is_some() {
            best_dec.truncate(hi);
        }
    }
    let mut i = 0;
    while i < best_dec.len() && *budget > 0 {
        let prev = if i == 0 { STAY } else { best_dec[i - 1] };
        if best_dec[i] != STAY && best_dec[i] != prev {
            let mut cand = best_dec.clone();
            cand[i] = STAY;
            if fails(&best_sc, &cand, budget).is_some() {
                best_dec = cand;
            }
        }
        i += 1;
    }
    let after = (best_sc.tasks.len(), best_sc.tasks.iter().map(|t| t.len()).sum::<usize>(), switches(&best_dec));
    let info = serde_json::json!({
        "tasks_before": before.0, "tasks_after": after.0, "ops_before": before.1, "ops_after": after.1,
        "switches_before": before.2, "switches_after": after.2,
    });
    (best_sc, best_dec, info)
}

fn switches(dec: &[u32]) -> usize {
    dec.windows(2).filter(|w| w[1] != STAY && w[0] != w[1]).count()
}

fn leg_b(o: &Opts) -> i32 {
    let golden = match load_golden(o) {
        Some(g) => g,
        None => {
            eprintln!("legB: golden.json missing or unreadable");
            return 2;
        }
    };
    let sz = sizes(&o.tier);
    let all = build(&CorpusSpec { seed: o.seed, generated: sz.generated, mutated: sz.mutated, layout: sz.layout, literal: sz.literal }, &o.repo, &o.verif);
    // small programs (by text length) that the golden run accepted for at least one argument map
    let mut idx: Vec<usize> = (0..all.len())
        .filter(|i| (0..all[*i].args.len()).any(|a| matches!(golden.get(&(*i, a, false)), Some(Outcome::Ok { .. }))))
        .collect();
    idx.sort_by_key(|i| (all[*i].text.len(), *i));
    let thorough = o.tier == "thorough";
    let small: Vec<usize> = idx.iter().copied().take(if thorough { 60 } else { 24 }).collect();
    // "large" for leg B: the largest programs below 16 kB of text (bigger ones only cost steps)
    let large: Vec<usize> = idx.iter().copied().rev().filter(|i| all[*i].text.len() < 16_000).take(if thorough { 12 } else { 3 }).collect();
    let runs: u64 = if thorough { 6000 } else { 320 };
    let schedules_per_scenario = 6;
    let mut rep = Report::new(&o.out, "B", o.shard);
    // stand-in cross-check: a sequential execution under the patched dependency equals the golden table
    let mut checked: std::collections::BTreeSet<usize> = Default::default();
    let mut unjudgeable: std::collections::BTreeSet<usize> = Default::default();
    let mut inconclusive = 0u64;
    let mut total_runs = 0u64;
    for run in 0..runs {
        if (run as usize) % o.shards != o.shard {
            continue;
        }
        let s = mix(o.seed ^ tag("legB") ^ run);
        let mut rng = Prng::new(s);
        let pool = if rng.below(12) == 0 { &large } else { &small };
        let k = rng.range(1, 2);
        let sel: Vec<usize> = (0..k).map(|_| *rng.pick(pool)).collect();
        let cases: Vec<Case> = sel.iter().map(|i| all[*i].clone()).collect();
        let reference = |c: usize, a: usize, d: bool| golden.get(&(sel[c], a, d)).cloned();
        for (local, gi) in sel.iter().enumerate() {
            if checked.insert(*gi) {
                let sc = Scenario {
                    shared: vec![],
                    tasks: vec![(0..cases[local].args.len())
                        .flat_map(|a| [false, true].into_iter().map(move |d| TaskOp::CompileCommit { case: local, args: a, debug: d }))
                        .collect()],
                };
                HASH_SEED.store(mix(*gi as u64 ^ o.seed) | 1, std::sync::atomic::Ordering::SeqCst);
                ARG_ROUTE.store(0, std::sync::atomic::Ordering::SeqCst);
                let r = execute(&sc, &cases, Kind::RandomWalk { switch_permille: 0 }, 0, 50_000_000);
                match judge(&sc, &r, &reference, 50_000_000) {
                    Ok(None) => rep.count("standin_crosschecks_equal_to_real_dependency", 1),
                    Ok(Some(v)) => {
                        // Either the tree is not deterministic across processes (legs A and C decide
                        // that with the real dependency) or the stand-in is not faithful.  Leg B cannot
                        // tell, so it does not judge this program; the driver turns a disagreement
                        // that legs A and C do not explain into a harness error.
                        rep.count("standin_disagreements", 1);
                        rep.event(&format!("B\tstandin-disagreement\t{}\t{}", cases[local].id, v.detail));
                        unjudgeable.insert(*gi);
                    }
                    Err(e) => {
                        eprintln!("legB: sequential cross-check aborted: {e}");
                        return 2;
                    }
                }
            }
        }
        if sel.iter().any(|gi| unjudgeable.contains(gi)) {
            rep.count("runs_skipped_standin_disagreement", 1);
            continue;
        }
        let sc = draw_scenario(&mut rng, &cases);
        let run_hash_seed = rng.next() | 1;
        HASH_SEED.store(run_hash_seed, std::sync::atomic::Ordering::SeqCst);
        let run_arg_route = rng.below(4) as u64;
        ARG_ROUTE.store(run_arg_route, std::sync::atomic::Ordering::SeqCst);
        // schedule 0: never switch voluntarily -> sequential step count
        let base = execute(&sc, &cases, Kind::RandomWalk { switch_permille: 0 }, rng.next(), 50_000_000);
        let base_steps = base.trace.steps.max(10);
        let max_steps = (base_steps as usize) * 50 + 10_000;
        let mut results = vec![(Kind::RandomWalk { switch_permille: 0 }, base)];
        for _ in 1..schedules_per_scenario {
            let kind = match rng.below(9) {
                7 => Kind::Focus { park_permille: 500, park_steps: base_steps * 4 },
                8 => Kind::Focus { park_permille: 150, park_steps: base_steps },
                0 => Kind::RandomWalk { switch_permille: 20 },
                1 => Kind::RandomWalk { switch_permille: 100 },
                2 => Kind::RandomWalk { switch_permille: 500 },
                3 => Kind::RandomWalk { switch_permille: 1000 },
                d => {
                    let d = d - 3; // 1..3 change points
                    let points: Vec<u64> = (0..d).map(|_| 1 + rng.next() % base_steps).collect();
                    Kind::Pct { points }
                }
            };
            let seed = rng.next();
            let r = execute(&sc, &cases, kind.clone(), seed, max_steps);
            results.push((kind, r));
        }
        for (si, (kind, r)) in results.into_iter().enumerate() {
            total_runs += 1;
            rep.evaluations += 1;
            rep.count("scheduler_steps", r.trace.steps);
            rep.count("context_switches", r.trace.switches);
            rep.count("preemptions_between_caller_tasks", r.trace.preemptions);
            rep.count("interesting_points_simfony_level_sync_operations", r.trace.interesting_points);
            rep.count("tasks_parked_at_an_interesting_point", r.trace.parks);
            let dkey = fnv1a(&r.trace.decisions.iter().flat_map(|d| d.to_le_bytes()).collect::<Vec<u8>>());
            let verdict = judge(&sc, &r, &reference, max_steps);
            rep.event(&format!(
                "B\trun {run}.{si}\th={run_hash_seed:x}\t{}\tcases={:?}\tsched={}\tsteps={} switches={} preempt={} dec={:016x}\tobs=[{}]\t-> {}",
                sc.canonical(),
                cases.iter().map(|c| c.id.as_str()).collect::<Vec<_>>(),
                kind_json(&kind),
                r.trace.steps,
                r.trace.switches,
                r.trace.preemptions,
                dkey,
                r.obs.iter().map(|o| format!("{}.{}:{}", o.task, o.idx, o.got.key())).collect::<Vec<_>>().join(","),
                match &verdict { Ok(None) => "ok".to_string(), Ok(Some(v)) => v.class.clone(), Err(e) => format!("inconclusive: {e}") }
            ));
            if r.trace.preemptions >= 1 {
                rep.nontrivial.insert(fnv1a(format!("{}:{:?}:{dkey:x}", sc.to_json(), sel).as_bytes()));
                rep.set_add("distinct_decision_lists", dkey);
            }
            let canon = sc.canonical();
            if canon.matches("Commit(shared)").count() >= 2 && r.trace.preemptions >= 1 {
                rep.count("probe_commit_raced_with_commit_on_one_handle", 1);
            }
            if rep.samples.len() < 2 && r.trace.preemptions >= 1 {
                rep.sample(serde_json::json!({
                    "leg": "B", "run": format!("{run}.{si}"), "scenario": sc.to_json(), "canonical": canon,
                    "programs": cases.iter().map(|c| c.id.clone()).collect::<Vec<_>>(),
                    "scheduler": kind_json(&kind), "steps": r.trace.steps, "switches": r.trace.switches,
                    "decisions_head": r.trace.decisions.iter().take(64).collect::<Vec<_>>(),
                    "observations": r.obs.iter().map(|o| format!("task{} {} -> {}", o.task, o.what, o.got.key())).collect::<Vec<_>>(),
                }));
            }
            match verdict {
                Err(_) => inconclusive += 1,
                Ok(None) => {}
                Ok(Some(v)) => {
                    rep.count("violating_runs", 1);
                    // one replay file per (class, canonical scenario) per shard is enough
                    let key = format!("{}|{}", v.class, canon);
                    if rep.violations.iter().any(|x| x.get("key").and_then(|k| k.as_str()) == Some(&key)) {
                        continue;
                    }
                    let mut budget = 300usize;
                    // 0. program: the smallest corpus entry on which the same class still shows
                    let mut m_cases = cases.clone();
                    let mut m_sel = sel.clone();
                    let mut m_sc = sc.clone();
                    let mut m_dec = r.trace.decisions.clone();
                    let mut program_substituted = false;
                    'subst: for g in small.iter().take(5) {
                        if all[*g].text.len() >= cases.iter().map(|c| c.text.len()).max().unwrap_or(0) || unjudgeable.contains(g) {
                            continue;
                        }
                        let cand_cases: Vec<Case> = cases.iter().map(|_| all[*g].clone()).collect();
                        let ok_args = (0..all[*g].args.len()).find(|a| matches!(golden.get(&(*g, *a, false)), Some(Outcome::Ok { .. }))).unwrap_or(0);
                        let mut cand_sc = sc.clone();
                        for sh in cand_sc.shared.iter_mut() {
                            if let Shared::Compiled { args, .. } | Shared::Derived { args, .. } = sh {
                                *args = ok_args;
                            }
                        }
                        for t in cand_sc.tasks.iter_mut() {
                            for op in t.iter_mut() {
                                match op {
                                    TaskOp::InstantiateCommit { args, .. } | TaskOp::CompileCommit { args, .. } | TaskOp::InstantiateKeep { args, .. } => *args = ok_args,
                                    _ => {}
                                }
                            }
                        }
                        let cand_ref = |_c: usize, a: usize, d: bool| golden.get(&(*g, a, d)).cloned();
                        for (ki, k) in [1000u32, 500, 100].iter().enumerate() {
                            for sd in 0..3u64 {
                                if budget == 0 {
                                    break 'subst;
                                }
                                budget -= 1;
                                let rr = execute(&cand_sc, &cand_cases, Kind::RandomWalk { switch_permille: *k }, mix(sd ^ (ki as u64) << 8), max_steps);
                                if let Ok(Some(vv)) = judge(&cand_sc, &rr, &cand_ref, max_steps) {
                                    if vv.class == v.class {
                                        m_cases = cand_cases;
                                        m_sel = cases.iter().map(|_| *g).collect();
                                        m_sc = cand_sc;
                                        m_dec = rr.trace.decisions.clone();
                                        program_substituted = true;
                                        break 'subst;
                                    }
                                }
                            }
                        }
                    }
                    let m_reference = |c: usize, a: usize, d: bool| golden.get(&(m_sel[c], a, d)).cloned();
                    let (msc, mdec, mut info) = minimise(&m_sc, &m_cases, &m_dec, &v.class, &m_reference, max_steps, &mut budget);
                    info["program_substituted"] = serde_json::json!(program_substituted);
                    let mr = execute(&msc, &m_cases, Kind::Replay { decisions: mdec.clone() }, 0, max_steps);
                    let mv = judge(&msc, &mr, &m_reference, max_steps).ok().flatten();
                    let (fsc, fdec, fv, cases) = match mv {
                        Some(mv) if mv.class == v.class => (msc, mdec, mv, m_cases.clone()),
                        _ => (sc.clone(), r.trace.decisions.clone(), v, cases.clone()),
                    };
                    let path = o.verif.join("replays").join(format!("C19-B-{}-{}.{}.json", o.seed, run, si));
                    let scenario = fsc.canonical();
                    let doc = serde_json::json!({
                        "property": "C19", "leg": "B", "class": fv.class, "detail": fv.detail, "scenario": scenario,
                        "verif_seed": o.seed, "run": run, "schedule": si,
                        "programs": cases.iter().map(|c| c.to_json()).collect::<Vec<_>>(),
                        "scenario_ops": fsc.to_json(),
                        "decisions": fdec, "max_steps": max_steps, "hash_seeds": [run_hash_seed.to_string()], "arg_route": run_arg_route,
                        "expected": fv.expected, "observed": fv.observed, "minimised": info,
                        "original": {"scenario_ops": sc.to_json(), "scheduler": kind_json(&kind)},
                    });
                    // the replay file must reproduce in a fresh process (what `./check replay` does)
                    let mut doc = doc;
                    if let Some(dir) = path.parent() {
                        std::fs::create_dir_all(dir).ok();
                    }
                    if std::fs::write(&path, serde_json::to_string_pretty(&doc).unwrap()).is_ok() {
                        let fresh = std::env::current_exe().ok().and_then(|me| {
                            std::process::Command::new(me).arg("replay").arg(&path).stdout(std::process::Stdio::null()).stderr(std::process::Stdio::null()).status().ok()
                        });
                        doc["reproduced_in_fresh_process"] = serde_json::json!(fresh.and_then(|s| s.code()) == Some(1));
                    }
                    rep.violations.push(serde_json::json!({"class": fv.class, "scenario": scenario, "key": key, "replay": path, "doc": doc}));
                }
            }
        }
    }
    rep.count("inconclusive_runs", inconclusive);
    rep.count("runs", total_runs);
    let nviol = rep.violations.len();
    if rep.finish().is_err() {
        return 2;
    }
    if nviol > 0 {
        1
    } else {
        0
    }
}

/// Re-execute a leg B replay file.  The reference is computed from the file's expected outcome
/// of each program by a sequential run in this process (single task, no interleaving).
fn replay(o: &Opts) -> i32 {
    let Some(path) = o.rest.first() else {
        eprintln!("usage: simsched replay <file>");
        return 2;
    };
    let Ok(text) = std::fs::read_to_string(path) else {
        eprintln!("replay: cannot read {path}");
        return 2;
    };
    let Ok(doc) = serde_json::from_str::<serde_json::Value>(&text) else { return 2 };
    let cases: Vec<Case> = doc.get("programs").and_then(|p| p.as_array()).map(|a| a.iter().filter_map(Case::from_json).collect()).unwrap_or_default();
    let Some(sc) = doc.get("scenario_ops").and_then(Scenario::from_json) else { return 2 };
    let decisions: Vec<u32> = doc.get("decisions").and_then(|d| d.as_array()).map(|a| a.iter().filter_map(|x| x.as_u64().map(|x| x as u32)).collect()).unwrap_or_default();
    let max_steps = doc.get("max_steps").and_then(|m| m.as_u64()).unwrap_or(50_000_000) as usize;
    let class = doc.get("class").and_then(|c| c.as_str()).unwrap_or("").to_string();
    let hs: u64 = doc.get("hash_seeds").and_then(|h| h.get(0)).and_then(|h| h.as_str()).and_then(|h| h.parse().ok()).unwrap_or(0);
    // sequential reference, computed first, in its own execution (hash seed 0)
    HASH_SEED.store(0, std::sync::atomic::Ordering::SeqCst);
    let mut table: std::collections::BTreeMap<(usize, usize, bool), Outcome> = Default::default();
    for (ci, c) in cases.iter().enumerate() {
        let seq = Scenario {
            shared: vec![],
            tasks: vec![(0..c.args.len()).flat_map(|a| [false, true].into_iter().map(move |d| TaskOp::CompileCommit { case: ci, args: a, debug: d })).collect()],
        };
        let r = execute(&seq, &cases, Kind::RandomWalk { switch_permille: 0 }, 0, 50_000_000);
        for ob in r.obs {
            if let Some(k) = ob.want {
                table.insert(k, ob.got);
            }
        }
    }
    let reference = |c: usize, a: usize, d: bool| table.get(&(c, a, d)).cloned();
    HASH_SEED.store(hs, std::sync::atomic::Ordering::SeqCst);
    ARG_ROUTE.store(doc.get("arg_route").and_then(|a| a.as_u64()).unwrap_or(0), std::sync::atomic::Ordering::SeqCst);
    let r = execute(&sc, &cases, Kind::Replay { decisions }, 0, max_steps);
    for ob in &r.obs {
        println!("task {} op {} {} -> {} {}", ob.task, ob.idx, ob.what, ob.got.key(), if let Outcome::Panic(p) = &ob.got { p.clone() } else { String::new() });
    }
    println!("steps={} switches={} preemptions={}", r.trace.steps, r.trace.switches, r.trace.preemptions);
    match judge(&sc, &r, &reference, max_steps) {
        Ok(Some(v)) => {
            println!("replay: {} - {}", v.class, v.detail);
            if v.class == class {
                println!("VIOLATION property=C19 replay={path}");
                1
            } else {
                println!("replay: class differs from the recorded one ({class})");
                3
            }
        }
        Ok(None) => {
            println!("replay: no violation");
            0
        }
        Err(e) => {
            println!("replay: inconclusive: {e}");
            2
        }
    }
}

fn main() {
    let args: Vec<String> = std::env::args().skip(1).collect();
    if args.is_empty() {
        eprintln!("usage: simsched <legB|replay> [options]");
        std::process::exit(2);
    }
    let o = parse_opts(&args[1..]);
    // let shuttle install its panic hook once, then replace it with the quiet recorder
    {
        let trace = Arc::new(Mutex::new(Trace::default()));
        let mut cfg = shuttle::Config::new();
        cfg.failure_persistence = shuttle::FailurePersistence::None;
        shuttle::Runner::new(SimScheduler::new(Kind::RandomWalk { switch_permille: 0 }, 0, trace), cfg).run(|| {});
    }
    ops::quiet_panics();
    let code = match args[0].as_str() {
        "legB" => leg_b(&o),
        "replay" => replay(&o),
        _ => 2,
    };
    std::process::exit(code);
}
