//! S3: our own schedulers for shuttle.  Every decision comes from the run's PRNG (or from a
//! recorded decision list), and every decision taken where more than one task was runnable is
//! recorded, so that one run is one exactly repeatable execution.

use shuttle::scheduler::{Schedule, Scheduler, Task, TaskId};
use simcore::prng::Prng;
use std::sync::{Arc, Mutex};

pub const STAY: u32 = u32::MAX;

#[derive(Clone, Debug)]
pub enum Kind {
    /// stay on the current task unless a coin with this per-mille probability says switch
    RandomWalk { switch_permille: u32 },
    /// PCT style: random priorities, `points` = step numbers at which the running task is demoted
    Pct { points: Vec<u64> },
    /// re-execute a decision list (entry STAY or not runnable: stay on the current task)
    Replay { decisions: Vec<u32> },
}

#[derive(Default, Debug, Clone)]
pub struct Trace {
    /// chosen task at every point where more than one task was runnable
    pub decisions: Vec<u32>,
    pub steps: u64,
    pub switches: u64,
    /// switches that took the processor away from a worker task that could have continued
    pub preemptions: u64,
    pub max_runnable: usize,
}

pub struct SimScheduler {
    kind: Kind,
    rng: Prng,
    started: bool,
    trace: Arc<Mutex<Trace>>,
    prio: Vec<u64>,
    pos: usize,
}

impl SimScheduler {
    pub fn new(kind: Kind, seed: u64, trace: Arc<Mutex<Trace>>) -> Self {
        SimScheduler { kind, rng: Prng::new(seed), started: false, trace, prio: Vec::new(), pos: 0 }
    }
}

impl Scheduler for SimScheduler {
    fn new_execution(&mut self) -> Option<Schedule> {
        if self.started {
            return None;
        }
        self.started = true;
        Some(Schedule::new(0))
    }

    fn next_task(&mut self, runnable: &[&Task], current: Option<TaskId>, _is_yielding: bool) -> Option<TaskId> {
        let ids: Vec<usize> = runnable.iter().map(|t| usize::from(t.id())).collect();
        let cur: Option<usize> = current.map(usize::from);
        let cur_runnable = cur.map(|c| ids.contains(&c)).unwrap_or(false);
        let mut tr = self.trace.lock().unwrap();
        tr.steps += 1;
        let step = tr.steps;
        tr.max_runnable = tr.max_runnable.max(ids.len());
        let chosen = if ids.len() == 1 {
            ids[0]
        } else {
            let c = match &mut self.kind {
                Kind::RandomWalk { switch_permille } => {
                    if cur_runnable && !self.rng.chance(*switch_permille) {
                        cur.unwrap()
                    } else {
                        *self.rng.pick(&ids)
                    }
                }
                Kind::Pct { points } => {
                    for id in &ids {
                        while self.prio.len() <= *id {
                            // new tasks get a random high priority
                            let p = 1_000_000 + (self.rng.next() % 1_000_000);
                            self.prio.push(p);
                        }
                    }
                    if points.contains(&step) {
                        if let Some(c) = cur {
                            if c < self.prio.len() {
                                // demote below everything seen so far
                                self.prio[c] = points.iter().position(|p| *p == step).unwrap() as u64;
                            }
                        }
                    }
                    *ids.iter().max_by_key(|id| self.prio[**id]).unwrap()
                }
                Kind::Replay { decisions } => {
                    let want = decisions.get(self.pos).copied().unwrap_or(STAY);
                    self.pos += 1;
                    if want != STAY && ids.contains(&(want as usize)) {
                        want as usize
                    } else if cur_runnable {
                        cur.unwrap()
                    } else {
                        ids[0]
                    }
                }
            };
            tr.decisions.push(c as u32);
            c
        };
        if let Some(c) = cur {
            if c != chosen {
                tr.switches += 1;
                if cur_runnable && c != 0 && chosen != 0 {
                    tr.preemptions += 1;
                }
            }
        }
        Some(TaskId::from(chosen))
    }

    fn next_u64(&mut self) -> u64 {
        self.rng.next()
    }
}
