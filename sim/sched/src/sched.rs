//! S3: our own schedulers for shuttle.  Every decision comes from the run's PRNG (or from a
//! recorded decision list), and every decision taken where more than one task was runnable is
//! recorded, so that one run is one exactly repeatable execution.

use shuttle::scheduler::{Schedule, Scheduler, Task, TaskId};
use simcore::prng::Prng;
use std::sync::{Arc, Mutex};

pub const STAY: u32 = u32::MAX;

#[derive(Clone, Debug)]
pub enum Kind {
    /// stay on the current task unless a coin with this per-mille probability says switch
    RandomWalk { switch_permille: u32 },
    /// PCT style: random priorities, `points` = step numbers at which the running task is demoted
    Pct { points: Vec<u64> },
    /// re-execute a decision list (entry STAY or not runnable: stay on the current task)
    Replay { decisions: Vec<u32> },
    /// "focus": quiet random walk, but when the running task is at an interesting point (a
    /// simfony-level synchronisation operation, marked by the source seam) it is, with the given
    /// probability, parked right there while the other tasks run - for up to `park_steps` steps or
    /// until nobody else can run.  This stretches windows of a few instructions to whole operations.
    Focus { park_permille: u32, park_steps: u64 },
}

#[derive(Default, Debug, Clone)]
pub struct Trace {
    /// chosen task at every point where more than one task was runnable
    pub decisions: Vec<u32>,
    pub steps: u64,
    pub switches: u64,
    /// switches that took the processor away from a worker task that could have continued
    pub preemptions: u64,
    pub max_runnable: usize,
    /// scheduling decisions taken while the running task was at an interesting point
    pub interesting_points: u64,
    /// times a task was parked at such a point
    pub parks: u64,
}

pub struct SimScheduler {
    kind: Kind,
    rng: Prng,
    started: bool,
    trace: Arc<Mutex<Trace>>,
    prio: Vec<u64>,
    pos: usize,
    parked: Option<(usize, u64)>,
}

impl SimScheduler {
    pub fn new(kind: Kind, seed: u64, trace: Arc<Mutex<Trace>>) -> Self {
        SimScheduler { kind, rng: Prng::new(seed), started: false, trace, prio: Vec::new(), pos: 0, parked: None }
    }
}

impl Scheduler for SimScheduler {
    fn new_execution(&mut self) -> Option<Schedule> {
        if self.started {
            return None;
        }
        self.started = true;
        Some(Schedule::new(0))
    }

    fn next_task(&mut self, runnable: &[&Task], current: Option<TaskId>, _is_yielding: bool) -> Option<TaskId> {
        let ids: Vec<usize> = runnable.iter().map(|t| usize::from(t.id())).collect();
        let cur: Option<usize> = current.map(usize::from);
        let cur_runnable = cur.map(|c| ids.contains(&c)).unwrap_or(false);
        // the mark is consumed at every decision, whatever the scheduler kind
        let at_point = simfony::simseam_sync::take_point();
        let mut tr = self.trace.lock().unwrap();
        if at_point {
            tr.interesting_points += 1;
        }
        tr.steps += 1;
        let step = tr.steps;
        tr.max_runnable = tr.max_runnable.max(ids.len());
        let chosen = if ids.len() == 1 {
            ids[0]
        } else {
            let c = match &mut self.kind {
                Kind::RandomWalk { switch_permille } => {
                    if cur_runnable && !self.rng.chance(*switch_permille) {
                        cur.unwrap()
                    } else {
                        *self.rng.pick(&ids)
                    }
                }
                Kind::Pct { points } => {
                    for id in &ids {
                        while self.prio.len() <= *id {
                            // new tasks get a random high priority
                            let p = 1_000_000 + (self.rng.next() % 1_000_000);
                            self.prio.push(p);
                        }
                    }
                    if points.contains(&step) {
                        if let Some(c) = cur {
                            if c < self.prio.len() {
                                // demote below everything seen so far
                                self.prio[c] = points.iter().position(|p| *p == step).unwrap() as u64;
                            }
                        }
                    }
                    *ids.iter().max_by_key(|id| self.prio[**id]).unwrap()
                }
                Kind::Focus { park_permille, park_steps } => {
                    // release an expired park
                    if let Some((t, left)) = self.parked {
                        let others = ids.iter().any(|i| *i != t);
                        if left == 0 || !others {
                            self.parked = None;
                        } else {
                            self.parked = Some((t, left - 1));
                        }
                    }
                    if self.parked.is_none() && at_point && cur_runnable && ids.len() > 1 && self.rng.chance(*park_permille) {
                        self.parked = Some((cur.unwrap(), *park_steps));
                        tr.parks += 1;
                    }
                    let allowed: Vec<usize> = match self.parked {
                        Some((t, _)) => ids.iter().copied().filter(|i| *i != t).collect(),
                        None => ids.clone(),
                    };
                    let allowed = if allowed.is_empty() { ids.clone() } else { allowed };
                    if cur.map(|c| allowed.contains(&c)).unwrap_or(false) && !self.rng.chance(20) {
                        cur.unwrap()
                    } else {
                        *self.rng.pick(&allowed)
                    }
                }
                Kind::Replay { decisions } => {
                    let want = decisions.get(self.pos).copied().unwrap_or(STAY);
                    self.pos += 1;
                    if want != STAY && ids.contains(&(want as usize)) {
                        want as usize
                    } else if cur_runnable {
                        cur.unwrap()
                    } else {
                        ids[0]
                    }
                }
            };
            tr.decisions.push(c as u32);
            c
        };
        if let Some(c) = cur {
            if c != chosen {
                tr.switches += 1;
                if cur_runnable && c != 0 && chosen != 0 {
                    tr.preemptions += 1;
                }
            }
        }
        Some(TaskId::from(chosen))
    }

    fn next_u64(&mut self) -> u64 {
        self.rng.next()
    }
}
