//! Token-level mutations of program texts (workload for the rejection path and for near-miss
//! accepted programs).  Both accepted and rejected results are useful: the oracle is always
//! "every observation equals the golden observation".

use crate::prng::Prng;

const SWAPS: &[(&str, &str)] = &[
    ("u32", "u16"),
    ("u8", "u32"),
    ("u16", "u8"),
    ("u64", "u32"),
    ("u256", "u128"),
    ("true", "false"),
    ("false", "true"),
    ("Left", "Right"),
    ("Right", "Left"),
    ("Some", "Left"),
    ("None", "false"),
    ("assert!", "unwrap"),
    ("unwrap_left", "unwrap_right"),
    ("witness::", "param::"),
    ("param::", "witness::"),
    ("let ", "let _x"),
    ("fn main", "fn mainn"),
    ("jet::", "jett::"),
    ("eq_32", "eq_16"),
    ("0x", "0b"),
    ("1", "300"),
    ("=>", "="),
    ("->", ":"),
    ("dbg!", "assert!"),
    ("fold", "for_while"),
    ("Either<", "Option<"),
    ("List<", "Option<"),
    // semantic errors that the grammar accepts
    (", 4>", ", 5>"),
    (", 8>", ", 6>"),
    (", 2>", ", 3>"),
    ("; 3]", "; 99999999999999999999999]"),
    ("; 2]", "; 18446744073709551616]"),
    ("=> 0,", "=> (),"),
    ("=> true,", "=> 1,"),
    ("true => ", "true => 0xffff, false => "),
    ("fn ", "fn fn_"),
    ("type ", "type u8"),
    ("u8", "u3"),
];

fn find_all(text: &str, pat: &str) -> Vec<usize> {
    let mut v = Vec::new();
    let mut from = 0;
    while let Some(i) = text[from..].find(pat) {
        v.push(from + i);
        from += i + pat.len().max(1);
        if from >= text.len() {
            break;
        }
    }
    v
}

pub fn mutate(rng: &mut Prng, text: &str) -> String {
    if !text.is_ascii() || text.is_empty() {
        return format!("{text} }}");
    }
    for _attempt in 0..8 {
        match rng.below(7) {
            0 | 1 | 2 => {
                let (from, to) = *rng.pick(SWAPS);
                let hits = find_all(text, from);
                if hits.is_empty() {
                    continue;
                }
                let at = *rng.pick(&hits);
                return format!("{}{}{}", &text[..at], to, &text[at + from.len()..]);
            }
            3 => {
                // delete one structural character
                let idx: Vec<usize> = text
                    .char_indices()
                    .filter(|(_, c)| ";(){},:<>[]=".contains(*c))
                    .map(|(i, _)| i)
                    .collect();
                if idx.is_empty() {
                    continue;
                }
                let at = *rng.pick(&idx);
                return format!("{}{}", &text[..at], &text[at + 1..]);
            }
            4 => {
                // duplicate a line
                let lines: Vec<&str> = text.lines().collect();
                if lines.is_empty() {
                    continue;
                }
                let at = rng.below(lines.len());
                let mut out = Vec::new();
                for (i, l) in lines.iter().enumerate() {
                    out.push(*l);
                    if i == at {
                        out.push(*l);
                    }
                }
                return out.join("\n");
            }
            5 => {
                // swap two adjacent lines
                let mut lines: Vec<&str> = text.lines().collect();
                if lines.len() < 2 {
                    continue;
                }
                let at = rng.below(lines.len() - 1);
                lines.swap(at, at + 1);
                return lines.join("\n");
            }
            _ => {
                // delete a line
                let lines: Vec<&str> = text.lines().collect();
                if lines.len() < 2 {
                    continue;
                }
                let at = rng.below(lines.len());
                let out: Vec<&str> = lines
                    .iter()
                    .enumerate()
                    .filter(|(i, _)| *i != at)
                    .map(|(_, l)| *l)
                    .collect();
                return out.join("\n");
            }
        }
    }
    format!("{text}\n}}")
}

/// Layout mutations: the same program with different line terminators, exotic white space,
/// comments with non-ASCII content, a BOM, ...  Whether the result is still accepted (and to what
/// it compiles) is decided by the golden run; what matters is that every observer - library in any
/// process, `simc` - agrees about these exact bytes.
pub fn layout(rng: &mut Prng, text: &str) -> String {
    let kind = rng.below(14);
    layout_kind(rng, text, kind)
}

/// Number of layout kinds (`layout_kind` takes kind modulo this).
pub const LAYOUT_KINDS: usize = 14;

pub fn layout_kind(rng: &mut Prng, text: &str, kind: usize) -> String {
    // line ends that are followed by a line with code on it (so that what happens to the
    // terminator, or to a comment inserted there, can matter)
    let all_nl: Vec<usize> = text.char_indices().filter(|(_, c)| *c == '\n').map(|(i, _)| i).collect();
    let nl: Vec<usize> = {
        let v: Vec<usize> = all_nl
            .iter()
            .copied()
            .filter(|i| {
                let rest = &text[i + 1..];
                let line = rest.lines().next().unwrap_or("").trim();
                !line.is_empty() && !line.starts_with("//")
            })
            .collect();
        if v.is_empty() { all_nl } else { v }
    };
    let ws: Vec<usize> = text.char_indices().filter(|(_, c)| *c == ' ' || *c == '\n').map(|(i, _)| i).collect();
    let at = |rng: &mut Prng, v: &[usize]| if v.is_empty() { 0 } else { *rng.pick(v) };
    match kind % LAYOUT_KINDS {
        0 => {
            // one LF becomes a lone CR
            let i = at(rng, &nl);
            if nl.is_empty() { return format!("{text}\r"); }
            format!("{}\r{}", &text[..i], &text[i + 1..])
        }
        1 => text.replace('\n', "\r\n"),
        2 => text.replace('\n', "\r"),
        3 => {
            // a line comment terminated by a lone CR, followed by code on the "same line"
            let i = if nl.is_empty() { 0 } else { at(rng, &nl) + 1 };
            format!("{}// note\r{}", &text[..i], &text[i..])
        }
        4 => {
            // a line comment terminated by CRLF
            let i = if nl.is_empty() { 0 } else { at(rng, &nl) + 1 };
            format!("{}// note\r\n{}", &text[..i], &text[i..])
        }
        5 => {
            let i = at(rng, &ws);
            let c = *rng.pick(&["\t", "\u{b}", "\u{c}", "\u{a0}", "\u{200b}", "\u{2028}", "\u{85}", "\0"]);
            format!("{}{}{}", &text[..i], c, &text[i..])
        }
        6 => format!("\u{feff}{text}"),
        7 => format!("{text}   \n\n\t\n"),
        8 => text.trim_end().to_string(),
        9 => {
            let i = if nl.is_empty() { 0 } else { at(rng, &nl) + 1 };
            format!("{}/* \u{e9} \u{2200} \u{1f4a5} \r \0 */{}", &text[..i], &text[i..])
        }
        10 => {
            // comment at the very end without a newline
            format!("{}// the end", text)
        }
        11 => {
            // unterminated block comment at the end
            format!("{}/* open", text)
        }
        12 => {
            // every space becomes a tab
            text.replace(' ', "\t")
        }
        _ => {
            // mixed terminators: alternate LF / CRLF / CR
            let mut out = String::new();
            let mut k = 0;
            for c in text.chars() {
                if c == '\n' {
                    out.push_str(["\n", "\r\n", "\r"][k % 3]);
                    k += 1;
                } else {
                    out.push(c);
                }
            }
            out
        }
    }
}

/// Change one digit of one numeric literal without changing any position in the file: the
/// result has exactly the same spans as the original, only a different constant.
pub fn same_span_literal(rng: &mut Prng, text: &str) -> Option<String> {
    if !text.is_ascii() {
        return None;
    }
    let b = text.as_bytes();
    // (start, end) of tokens that begin with a digit
    let mut toks: Vec<(usize, usize)> = Vec::new();
    let mut i = 0;
    let mut in_line_comment = false;
    while i < b.len() {
        if in_line_comment {
            if b[i] == b'\n' {
                in_line_comment = false;
            }
            i += 1;
            continue;
        }
        if b[i] == b'/' && i + 1 < b.len() && b[i + 1] == b'/' {
            in_line_comment = true;
            i += 2;
            continue;
        }
        let is_word = |c: u8| c.is_ascii_alphanumeric() || c == b'_';
        if b[i].is_ascii_digit() && (i == 0 || !is_word(b[i - 1])) {
            let s = i;
            while i < b.len() && is_word(b[i]) {
                i += 1;
            }
            toks.push((s, i));
        } else {
            i += 1;
        }
    }
    // type names such as u8 / u32 start with a letter, array sizes and list bounds are digits too:
    // changing those gives a type error or another program - both are fine, the golden run decides
    if toks.is_empty() {
        return None;
    }
    for _ in 0..8 {
        let (s, e) = *rng.pick(&toks);
        let tok = &text[s..e];
        let (digits_from, radix) = if tok.starts_with("0x") {
            (s + 2, 16)
        } else if tok.starts_with("0b") {
            (s + 2, 2)
        } else {
            (s, 10)
        };
        let positions: Vec<usize> = (digits_from..e).filter(|p| (b[*p] as char).is_digit(radix)).collect();
        if positions.is_empty() {
            continue;
        }
        let p = *rng.pick(&positions);
        let old = (b[p] as char).to_digit(radix).unwrap();
        let new = (old + 1 + rng.below(radix as usize - 1) as u32) % radix;
        let c = std::char::from_digit(new, radix).unwrap();
        let mut out = text.to_string();
        out.replace_range(p..p + 1, &c.to_string());
        return Some(out);
    }
    None
}
