//! Token-level mutations of program texts (workload for the rejection path and for near-miss
//! accepted programs).  Both accepted and rejected results are useful: the oracle is always
//! "every observation equals the golden observation".

use crate::prng::Prng;

const SWAPS: &[(&str, &str)] = &[
    ("u32", "u16"),
    ("u8", "u32"),
    ("u16", "u8"),
    ("u64", "u32"),
    ("u256", "u128"),
    ("true", "false"),
    ("false", "true"),
    ("Left", "Right"),
    ("Right", "Left"),
    ("Some", "Left"),
    ("None", "false"),
    ("assert!", "unwrap"),
    ("unwrap_left", "unwrap_right"),
    ("witness::", "param::"),
    ("param::", "witness::"),
    ("let ", "let _x"),
    ("fn main", "fn mainn"),
    ("jet::", "jett::"),
    ("eq_32", "eq_16"),
    ("0x", "0b"),
    ("1", "300"),
    ("=>", "="),
    ("->", ":"),
    ("dbg!", "assert!"),
    ("fold", "for_while"),
    ("Either<", "Option<"),
    ("List<", "Option<"),
];

fn find_all(text: &str, pat: &str) -> Vec<usize> {
    let mut v = Vec::new();
    let mut from = 0;
    while let Some(i) = text[from..].find(pat) {
        v.push(from + i);
        from += i + pat.len().max(1);
        if from >= text.len() {
            break;
        }
    }
    v
}

pub fn mutate(rng: &mut Prng, text: &str) -> String {
    if !text.is_ascii() || text.is_empty() {
        return format!("{text} }}");
    }
    for _attempt in 0..8 {
        match rng.below(7) {
            0 | 1 | 2 => {
                let (from, to) = *rng.pick(SWAPS);
                let hits = find_all(text, from);
                if hits.is_empty() {
                    continue;
                }
                let at = *rng.pick(&hits);
                return format!("{}{}{}", &text[..at], to, &text[at + from.len()..]);
            }
            3 => {
                // delete one structural character
                let idx: Vec<usize> = text
                    .char_indices()
                    .filter(|(_, c)| ";(){},:<>[]=".contains(*c))
                    .map(|(i, _)| i)
                    .collect();
                if idx.is_empty() {
                    continue;
                }
                let at = *rng.pick(&idx);
                return format!("{}{}", &text[..at], &text[at + 1..]);
            }
            4 => {
                // duplicate a line
                let lines: Vec<&str> = text.lines().collect();
                if lines.is_empty() {
                    continue;
                }
                let at = rng.below(lines.len());
                let mut out = Vec::new();
                for (i, l) in lines.iter().enumerate() {
                    out.push(*l);
                    if i == at {
                        out.push(*l);
                    }
                }
                return out.join("\n");
            }
            5 => {
                // swap two adjacent lines
                let mut lines: Vec<&str> = text.lines().collect();
                if lines.len() < 2 {
                    continue;
                }
                let at = rng.below(lines.len() - 1);
                lines.swap(at, at + 1);
                return lines.join("\n");
            }
            _ => {
                // delete a line
                let lines: Vec<&str> = text.lines().collect();
                if lines.len() < 2 {
                    continue;
                }
                let at = rng.below(lines.len());
                let out: Vec<&str> = lines
                    .iter()
                    .enumerate()
                    .filter(|(i, _)| *i != at)
                    .map(|(_, l)| *l)
                    .collect();
                return out.join("\n");
            }
        }
    }
    format!("{text}\n}}")
}
