//! Per-shard report: counters, distinct keys, samples, violations and the event log.

use std::collections::{BTreeMap, BTreeSet};
use std::io::Write;
use std::path::{Path, PathBuf};

pub struct Report {
    pub leg: String,
    pub shard: usize,
    pub evaluations: u64,
    pub counters: BTreeMap<String, u64>,
    /// keys of distinct non-trivial cases (unioned over shards by the driver)
    pub nontrivial: BTreeSet<u64>,
    /// other distinct sets that are reported (name -> keys)
    pub sets: BTreeMap<String, BTreeSet<u64>>,
    pub samples: Vec<serde_json::Value>,
    pub violations: Vec<serde_json::Value>,
    pub known: Vec<String>,
    log: Option<std::io::BufWriter<std::fs::File>>,
    log_digest: u64,
    log_lines: u64,
    out: PathBuf,
}

impl Report {
    pub fn new(out: &Path, leg: &str, shard: usize) -> Report {
        std::fs::create_dir_all(out).ok();
        let log = std::fs::File::create(out.join(format!("{leg}-{shard}.log")))
            .ok()
            .map(std::io::BufWriter::new);
        Report {
            leg: leg.to_string(),
            shard,
            evaluations: 0,
            counters: BTreeMap::new(),
            nontrivial: BTreeSet::new(),
            sets: BTreeMap::new(),
            samples: Vec::new(),
            violations: Vec::new(),
            known: Vec::new(),
            log,
            log_digest: 0xcbf2_9ce4_8422_2325,
            log_lines: 0,
            out: out.to_path_buf(),
        }
    }

    pub fn count(&mut self, key: &str, n: u64) {
        *self.counters.entry(key.to_string()).or_insert(0) += n;
    }

    pub fn set_add(&mut self, set: &str, key: u64) {
        self.sets.entry(set.to_string()).or_default().insert(key);
    }

    /// One event log line.  Nothing in it may come from a clock, pid or pointer.
    pub fn event(&mut self, line: &str) {
        for b in line.as_bytes().iter().chain(b"\n") {
            self.log_digest ^= *b as u64;
            self.log_digest = self.log_digest.wrapping_mul(0x0000_0100_0000_01b3);
        }
        self.log_lines += 1;
        if let Some(l) = &mut self.log {
            let _ = writeln!(l, "{line}");
        }
    }

    pub fn sample(&mut self, v: serde_json::Value) {
        if self.samples.len() < 3 {
            self.samples.push(v);
        }
    }

    pub fn finish(mut self) -> std::io::Result<()> {
        if let Some(l) = &mut self.log {
            l.flush()?;
        }
        // every violation carries its replay document; write it where it says
        for v in &self.violations {
            if let (Some(path), Some(doc)) = (v.get("replay").and_then(|p| p.as_str()), v.get("doc")) {
                if let Some(dir) = std::path::Path::new(path).parent() {
                    std::fs::create_dir_all(dir).ok();
                }
                std::fs::write(path, serde_json::to_string_pretty(doc).unwrap())?;
            }
        }
        let sets: serde_json::Map<String, serde_json::Value> = self
            .sets
            .iter()
            .map(|(k, v)| {
                (k.clone(), serde_json::Value::Array(v.iter().map(|x| serde_json::json!(format!("{x:016x}"))).collect()))
            })
            .collect();
        let doc = serde_json::json!({
            "leg": self.leg, "shard": self.shard, "evaluations": self.evaluations,
            "counters": self.counters,
            "nontrivial": self.nontrivial.iter().map(|x| format!("{x:016x}")).collect::<Vec<_>>(),
            "sets": sets,
            "samples": self.samples, "violations": self.violations, "known": self.known,
            "log_digest": format!("{:016x}", self.log_digest), "log_lines": self.log_lines,
        });
        std::fs::write(
            self.out.join(format!("{}-{}.json", self.leg, self.shard)),
            serde_json::to_string(&doc).unwrap(),
        )
    }
}
