//! Seeded generator of simfony types and values (workload of C15), built through the public
//! constructor API so that it does not depend on the printer or the parser under test.

use crate::prng::Prng;
use simfony::num::{NonZeroPow2Usize, U256};
use simfony::types::{ResolvedType, TypeConstructible, TypeDeconstructible, UIntType};
use simfony::value::{UIntValue, Value, ValueConstructible};

const UINTS: &[UIntType] = &[
    UIntType::U1,
    UIntType::U2,
    UIntType::U4,
    UIntType::U8,
    UIntType::U16,
    UIntType::U32,
    UIntType::U64,
    UIntType::U128,
    UIntType::U256,
];

/// Wide values: hundreds of small elements in one array or list (a printed text of several kB
/// with hundreds of tokens; resource limits, buffers and quadratic paths only show on these).
fn gen_type_wide(rng: &mut Prng) -> ResolvedType {
    // (element type, leaves per element); the total stays below ~700 leaves so that one value
    // parses in a few milliseconds
    let (elem, leaves) = match rng.below(6) {
        0 => (ResolvedType::from(UIntType::U16), 1),
        1 => (ResolvedType::tuple([ResolvedType::from(UIntType::U8), ResolvedType::option(ResolvedType::from(UIntType::U8))]), 2),
        2 => (ResolvedType::tuple([ResolvedType::from(UIntType::U4), ResolvedType::boolean()]), 2),
        3 => (ResolvedType::either(ResolvedType::from(UIntType::U8), ResolvedType::boolean()), 1),
        4 => (ResolvedType::array(ResolvedType::tuple([ResolvedType::from(UIntType::U4), ResolvedType::boolean()]), 8), 16),
        _ => (ResolvedType::from(UIntType::U32), 1),
    };
    let max_n = (700 / leaves).clamp(20, 320);
    if rng.coin() {
        ResolvedType::array(elem, rng.range(max_n / 2, max_n))
    } else {
        // a list holds fewer than `bound` elements; gen_value caps the length at 400
        let bound = (max_n + 1).next_power_of_two().max(4);
        ResolvedType::list(elem, NonZeroPow2Usize::new(bound).unwrap())
    }
}

thread_local! {
    static WIDE_PERMILLE: std::cell::Cell<u32> = const { std::cell::Cell::new(8) };
}

/// How often (per mille, per type drawn at depth >= 1) a wide type is produced on this thread.
/// Maps use a low rate (every map is printed and parsed dozens of times), the sweep a higher one.
pub fn set_wide_permille(p: u32) {
    WIDE_PERMILLE.with(|w| w.set(p));
}

pub fn gen_type(rng: &mut Prng, depth: usize) -> ResolvedType {
    if depth >= 1 && rng.chance(WIDE_PERMILLE.with(|w| w.get())) {
        return gen_type_wide(rng);
    }
    let leaf = depth == 0 || rng.below(3) == 0;
    if leaf {
        return match rng.below(12) {
            0 => ResolvedType::boolean(),
            1 => ResolvedType::unit(),
            2 => ResolvedType::byte_array(rng.below(65)),
            _ => ResolvedType::from(*rng.pick(UINTS)),
        };
    }
    let d = depth - 1;
    match rng.below(10) {
        0 => ResolvedType::either(gen_type(rng, d), gen_type(rng, d)),
        1 => ResolvedType::option(gen_type(rng, d)),
        2 | 3 => {
            let n = rng.below(5);
            ResolvedType::tuple((0..n).map(|_| gen_type(rng, d)).collect::<Vec<_>>())
        }
        4 | 5 => {
            // arrays; byte arrays and nested byte arrays are the printer's special case
            match rng.below(4) {
                0 => ResolvedType::byte_array(rng.below(65)),
                1 => ResolvedType::array(ResolvedType::byte_array(rng.below(5)), rng.below(4)),
                2 => ResolvedType::array(ResolvedType::from(*rng.pick(UINTS)), rng.below(5)),
                _ => ResolvedType::array(gen_type(rng, d), rng.below(4)),
            }
        }
        6 | 7 => {
            let bound = NonZeroPow2Usize::new(1 << rng.range(1, 4)).unwrap();
            let elem = match rng.below(3) {
                0 => ResolvedType::from(UIntType::U8),
                1 => ResolvedType::byte_array(rng.below(4)),
                _ => gen_type(rng, d),
            };
            ResolvedType::list(elem, bound)
        }
        8 => ResolvedType::option(ResolvedType::byte_array(rng.range(1, 33))),
        _ => ResolvedType::either(ResolvedType::byte_array(rng.below(3)), gen_type(rng, d)),
    }
}

thread_local! {
    static POOL: std::cell::Cell<Option<[u8; 32]>> = const { std::cell::Cell::new(None) };
}

/// Correlated mode: while a pool is set, most integers and byte arrays take their bytes from the
/// start of the pool, so that different entries of one map (a `u128` and a `[u8; 16]`, a `u256`
/// and a `[u8; 32]`, ...) carry the same content and print the same digits.
pub fn set_pool(pool: Option<[u8; 32]>) {
    POOL.with(|p| p.set(pool));
}

fn pool() -> Option<[u8; 32]> {
    POOL.with(|p| p.get())
}

/// Types for correlated maps: the ones whose printed forms can coincide.
pub fn gen_type_correlated(rng: &mut Prng) -> ResolvedType {
    let wide = |rng: &mut Prng| -> ResolvedType {
        match rng.below(8) {
            0 => ResolvedType::from(UIntType::U128),
            1 => ResolvedType::from(UIntType::U256),
            2 => ResolvedType::byte_array(16),
            3 => ResolvedType::byte_array(32),
            4 => ResolvedType::from(UIntType::U64),
            5 => ResolvedType::byte_array(8),
            6 => ResolvedType::from(UIntType::U32),
            _ => ResolvedType::byte_array(4),
        }
    };
    match rng.below(6) {
        0 | 1 | 2 => wide(rng),
        3 => ResolvedType::tuple([wide(rng), wide(rng)]),
        4 => ResolvedType::option(wide(rng)),
        _ => ResolvedType::either(wide(rng), wide(rng)),
    }
}

/// Big-endian bytes of an integer of `bits` bits (1..=256), drawn from patterns that matter to
/// printers and parsers: zero, max, small numbers, powers of two and their neighbours, sparse bytes,
/// all-zero 64-bit limbs between non-zero ones, leading zeros, single bytes, runs.
pub fn gen_int_bytes(rng: &mut Prng, bits: u32) -> [u8; 32] {
    let mut b = [0u8; 32];
    let nbytes = ((bits + 7) / 8) as usize;
    if let Some(p) = pool() {
        if bits >= 8 && rng.below(5) != 0 {
            // the first nbytes of the pool, as a big-endian number
            b[32 - nbytes..].copy_from_slice(&p[..nbytes]);
            return b;
        }
    }
    let lo = 32 - nbytes; // b[lo..] is the value
    let set_bit = |b: &mut [u8; 32], k: u32| b[31 - (k / 8) as usize] |= 1 << (k % 8);
    match rng.below(13) {
        0 => {}
        1 => {
            for x in b[lo..].iter_mut() {
                *x = 0xff;
            }
        }
        2 => {
            let small = [1u16, 2, 9, 10, 15, 16, 99, 100, 255, 256, 1000];
            let v = *rng.pick(&small);
            b[31] = v as u8;
            if nbytes > 1 {
                b[30] = (v >> 8) as u8;
            }
        }
        3 | 4 => {
            for x in b[lo..].iter_mut() {
                *x = rng.below(256) as u8;
            }
        }
        5 => set_bit(&mut b, rng.below(bits as usize) as u32),
        6 => {
            // 2^k - 1
            let k = rng.below(bits as usize + 1) as u32;
            for i in 0..k {
                set_bit(&mut b, i);
            }
        }
        7 => {
            // 2^k + 1
            set_bit(&mut b, rng.below(bits as usize) as u32);
            b[31] |= 1;
        }
        8 => {
            for x in b[lo..].iter_mut() {
                *x = if rng.below(10) < 7 { 0 } else { rng.below(256) as u8 };
            }
        }
        9 => {
            // 64-bit limbs: zero or random, independently
            for limb in 0..4 {
                let zero = rng.coin();
                for i in 0..8 {
                    let idx = limb * 8 + i;
                    if idx >= lo {
                        b[idx] = if zero { 0 } else { 1 + rng.below(255) as u8 };
                    }
                }
            }
        }
        10 => {
            // leading zero bytes, then random
            let z = rng.below(nbytes + 1);
            for x in b[lo + z..].iter_mut() {
                *x = rng.below(256) as u8;
            }
        }
        11 => {
            let at = lo + rng.below(nbytes);
            b[at] = 1 + rng.below(255) as u8;
        }
        _ => {
            // runs of 00 / ff
            let mut cur = rng.coin();
            for x in b[lo..].iter_mut() {
                if rng.below(3) == 0 {
                    cur = !cur;
                }
                *x = if cur { 0xff } else { 0 };
            }
        }
    }
    if bits < 8 {
        b[31] &= (1u8 << bits) - 1;
    }
    b
}

fn gen_uint(rng: &mut Prng, ty: UIntType) -> UIntValue {
    let be = |b: &[u8; 32], n: usize| -> u128 {
        let mut v = 0u128;
        for x in &b[32 - n..] {
            v = (v << 8) | *x as u128;
        }
        v
    };
    match ty {
        UIntType::U1 => UIntValue::u1(gen_int_bytes(rng, 1)[31]).unwrap(),
        UIntType::U2 => UIntValue::u2(gen_int_bytes(rng, 2)[31]).unwrap(),
        UIntType::U4 => UIntValue::u4(gen_int_bytes(rng, 4)[31]).unwrap(),
        UIntType::U8 => UIntValue::U8(gen_int_bytes(rng, 8)[31]),
        UIntType::U16 => UIntValue::U16(be(&gen_int_bytes(rng, 16), 2) as u16),
        UIntType::U32 => UIntValue::U32(be(&gen_int_bytes(rng, 32), 4) as u32),
        UIntType::U64 => UIntValue::U64(be(&gen_int_bytes(rng, 64), 8) as u64),
        UIntType::U128 => UIntValue::U128(be(&gen_int_bytes(rng, 128), 16)),
        UIntType::U256 => UIntValue::U256(U256::from_byte_array(gen_int_bytes(rng, 256))),
    }
}

pub fn gen_value(rng: &mut Prng, ty: &ResolvedType) -> Value {
    if ty.is_boolean() {
        return Value::from(rng.coin());
    }
    if let Some(u) = ty.as_integer() {
        return Value::from(gen_uint(rng, u));
    }
    if let Some((l, r)) = ty.as_either() {
        return if rng.coin() {
            Value::left(gen_value(rng, l), r.clone())
        } else {
            Value::right(l.clone(), gen_value(rng, r))
        };
    }
    if let Some(inner) = ty.as_option() {
        return if rng.below(3) == 0 {
            Value::none(inner.clone())
        } else {
            Value::some(gen_value(rng, inner))
        };
    }
    if let Some(elems) = ty.as_tuple() {
        let vals: Vec<Value> = elems.iter().map(|t| gen_value(rng, t)).collect();
        return Value::tuple(vals);
    }
    if let Some((elem, n)) = ty.as_array() {
        if elem.as_integer() == Some(UIntType::U8) && pool().is_some() && rng.below(5) != 0 {
            let p = pool().unwrap();
            let vals: Vec<Value> = (0..n).map(|i| Value::from(UIntValue::U8(p[i % 32]))).collect();
            return Value::array(vals, elem.clone());
        }
        if elem.as_integer() == Some(UIntType::U8) && rng.coin() {
            // byte arrays: uniformly random bytes, or one repeated byte (00, ff, random)
            let style = rng.below(4);
            let fill = rng.below(256) as u8;
            let vals: Vec<Value> = (0..n)
                .map(|_| {
                    let b = match style {
                        0 => 0x00,
                        1 => 0xff,
                        2 => fill,
                        _ => rng.below(256) as u8,
                    };
                    Value::from(UIntValue::U8(b))
                })
                .collect();
            return Value::array(vals, elem.clone());
        }
        let vals: Vec<Value> = (0..n).map(|_| gen_value(rng, elem)).collect();
        return Value::array(vals, elem.clone());
    }
    if let Some((elem, bound)) = ty.as_list() {
        let n = match rng.below(4) {
            0 => 0,
            1 => (bound.get() - 1).min(400),
            2 => 1.min(bound.get() - 1),
            _ => rng.below(bound.get()).min(400),
        };
        let vals: Vec<Value> = (0..n).map(|_| gen_value(rng, elem)).collect();
        return Value::list(vals, elem.clone(), bound);
    }
    unreachable!("type {ty} has no constructor")
}

pub const RESERVED_NAMES: &[&str] = &[
    "const", "mod", "witness", "param", "true", "false", "u8", "u256", "List", "Option", "Either",
    "None", "Some", "Left", "Right", "fn", "let", "match", "type", "main", "jet", "bool", "unwrap",
    "assert", "Ctx8", "Pubkey", "into", "fold", "dbg", "panic",
];

/// 0..6 distinct, grammar-valid names (`[A-Za-z][A-Za-z0-9_]*`).
pub fn gen_names(rng: &mut Prng) -> Vec<String> {
    let n = match rng.below(8) {
        0 => 0,
        1 => 1,
        _ => rng.range(2, 6),
    };
    let style = rng.below(6);
    let mut names: Vec<String> = Vec::new();
    let mut guard = 0;
    while names.len() < n && guard < 200 {
        guard += 1;
        let name = match style {
            // equal length, common prefix
            0 => format!("KEY_{}", (b'A' + rng.below(26) as u8) as char),
            // case variants and digits
            1 => {
                let base = ["a", "A", "aa", "aA", "Aa", "AA", "a1", "A1", "a_", "A_", "a0", "a00", "B", "b"];
                rng.pick(&base).to_string()
            }
            // reserved words
            2 => rng.pick(RESERVED_NAMES).to_string(),
            // long names with shared prefix
            3 => format!("SIGNATURE_OF_PARTY_{}", rng.below(12)),
            // prefixes of each other
            4 => "X".repeat(1 + rng.below(7)),
            _ => {
                let len = 1 + rng.below(10);
                let mut s = String::new();
                for i in 0..len {
                    let alpha = b"ABCDEFGHIJKLMNOPQRSTUVWXYZabcdefghijklmnopqrstuvwxyz";
                    let rest = b"ABCDEFGHIJKLMNOPQRSTUVWXYZabcdefghijklmnopqrstuvwxyz0123456789_";
                    let c = if i == 0 { *rng.pick(alpha) } else { *rng.pick(rest) };
                    s.push(c as char);
                }
                s
            }
        };
        if !names.contains(&name) {
            names.push(name);
        }
    }
    names
}
