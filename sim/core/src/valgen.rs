//! Seeded generator of simfony types and values (workload of C15), built through the public
//! constructor API so that it does not depend on the printer or the parser under test.

use crate::prng::Prng;
use simfony::num::{NonZeroPow2Usize, U256};
use simfony::types::{ResolvedType, TypeConstructible, TypeDeconstructible, UIntType};
use simfony::value::{UIntValue, Value, ValueConstructible};

const UINTS: &[UIntType] = &[
    UIntType::U1,
    UIntType::U2,
    UIntType::U4,
    UIntType::U8,
    UIntType::U16,
    UIntType::U32,
    UIntType::U64,
    UIntType::U128,
    UIntType::U256,
];

pub fn gen_type(rng: &mut Prng, depth: usize) -> ResolvedType {
    let leaf = depth == 0 || rng.below(3) == 0;
    if leaf {
        return match rng.below(12) {
            0 => ResolvedType::boolean(),
            1 => ResolvedType::unit(),
            2 => ResolvedType::byte_array(rng.below(65)),
            _ => ResolvedType::from(*rng.pick(UINTS)),
        };
    }
    let d = depth - 1;
    match rng.below(10) {
        0 => ResolvedType::either(gen_type(rng, d), gen_type(rng, d)),
        1 => ResolvedType::option(gen_type(rng, d)),
        2 | 3 => {
            let n = rng.below(5);
            ResolvedType::tuple((0..n).map(|_| gen_type(rng, d)).collect::<Vec<_>>())
        }
        4 | 5 => {
            // arrays; byte arrays and nested byte arrays are the printer's special case
            match rng.below(4) {
                0 => ResolvedType::byte_array(rng.below(65)),
                1 => ResolvedType::array(ResolvedType::byte_array(rng.below(5)), rng.below(4)),
                2 => ResolvedType::array(ResolvedType::from(*rng.pick(UINTS)), rng.below(5)),
                _ => ResolvedType::array(gen_type(rng, d), rng.below(4)),
            }
        }
        6 | 7 => {
            let bound = NonZeroPow2Usize::new(1 << rng.range(1, 4)).unwrap();
            let elem = match rng.below(3) {
                0 => ResolvedType::from(UIntType::U8),
                1 => ResolvedType::byte_array(rng.below(4)),
                _ => gen_type(rng, d),
            };
            ResolvedType::list(elem, bound)
        }
        8 => ResolvedType::option(ResolvedType::byte_array(rng.range(1, 33))),
        _ => ResolvedType::either(ResolvedType::byte_array(rng.below(3)), gen_type(rng, d)),
    }
}

fn gen_uint(rng: &mut Prng, ty: UIntType) -> UIntValue {
    let boundary = rng.below(4);
    let r128 = |rng: &mut Prng| ((rng.next() as u128) << 64) | rng.next() as u128;
    let pick = |rng: &mut Prng, max: u128| -> u128 {
        match boundary {
            0 => 0,
            1 => max,
            2 => {
                let small = [1u128, 2, 9, 10, 15, 16, 255, 256];
                *rng.pick(&small) & max
            }
            _ => r128(rng) & max,
        }
    };
    match ty {
        UIntType::U1 => UIntValue::u1(pick(rng, 1) as u8).unwrap(),
        UIntType::U2 => UIntValue::u2(pick(rng, 3) as u8).unwrap(),
        UIntType::U4 => UIntValue::u4(pick(rng, 15) as u8).unwrap(),
        UIntType::U8 => UIntValue::U8(pick(rng, u8::MAX as u128) as u8),
        UIntType::U16 => UIntValue::U16(pick(rng, u16::MAX as u128) as u16),
        UIntType::U32 => UIntValue::U32(pick(rng, u32::MAX as u128) as u32),
        UIntType::U64 => UIntValue::U64(pick(rng, u64::MAX as u128) as u64),
        UIntType::U128 => UIntValue::U128(pick(rng, u128::MAX)),
        UIntType::U256 => {
            let mut b = [0u8; 32];
            match boundary {
                0 => {}
                1 => b = [0xff; 32],
                2 => b[31] = 1 + rng.below(255) as u8,
                _ => {
                    for x in b.iter_mut() {
                        *x = rng.below(256) as u8;
                    }
                }
            }
            UIntValue::U256(U256::from_byte_array(b))
        }
    }
}

pub fn gen_value(rng: &mut Prng, ty: &ResolvedType) -> Value {
    if ty.is_boolean() {
        return Value::from(rng.coin());
    }
    if let Some(u) = ty.as_integer() {
        return Value::from(gen_uint(rng, u));
    }
    if let Some((l, r)) = ty.as_either() {
        return if rng.coin() {
            Value::left(gen_value(rng, l), r.clone())
        } else {
            Value::right(l.clone(), gen_value(rng, r))
        };
    }
    if let Some(inner) = ty.as_option() {
        return if rng.below(3) == 0 {
            Value::none(inner.clone())
        } else {
            Value::some(gen_value(rng, inner))
        };
    }
    if let Some(elems) = ty.as_tuple() {
        let vals: Vec<Value> = elems.iter().map(|t| gen_value(rng, t)).collect();
        return Value::tuple(vals);
    }
    if let Some((elem, n)) = ty.as_array() {
        if elem.as_integer() == Some(UIntType::U8) && rng.coin() {
            // byte arrays: uniformly random bytes, or one repeated byte (00, ff, random)
            let style = rng.below(4);
            let fill = rng.below(256) as u8;
            let vals: Vec<Value> = (0..n)
                .map(|_| {
                    let b = match style {
                        0 => 0x00,
                        1 => 0xff,
                        2 => fill,
                        _ => rng.below(256) as u8,
                    };
                    Value::from(UIntValue::U8(b))
                })
                .collect();
            return Value::array(vals, elem.clone());
        }
        let vals: Vec<Value> = (0..n).map(|_| gen_value(rng, elem)).collect();
        return Value::array(vals, elem.clone());
    }
    if let Some((elem, bound)) = ty.as_list() {
        let n = match rng.below(4) {
            0 => 0,
            1 => bound.get() - 1,
            2 => 1.min(bound.get() - 1),
            _ => rng.below(bound.get()),
        };
        let vals: Vec<Value> = (0..n).map(|_| gen_value(rng, elem)).collect();
        return Value::list(vals, elem.clone(), bound);
    }
    unreachable!("type {ty} has no constructor")
}

pub const RESERVED_NAMES: &[&str] = &[
    "const", "mod", "witness", "param", "true", "false", "u8", "u256", "List", "Option", "Either",
    "None", "Some", "Left", "Right", "fn", "let", "match", "type", "main", "jet", "bool", "unwrap",
    "assert", "Ctx8", "Pubkey", "into", "fold", "dbg", "panic",
];

/// 0..6 distinct, grammar-valid names (`[A-Za-z][A-Za-z0-9_]*`).
pub fn gen_names(rng: &mut Prng) -> Vec<String> {
    let n = match rng.below(8) {
        0 => 0,
        1 => 1,
        _ => rng.range(2, 6),
    };
    let style = rng.below(6);
    let mut names: Vec<String> = Vec::new();
    let mut guard = 0;
    while names.len() < n && guard < 200 {
        guard += 1;
        let name = match style {
            // equal length, common prefix
            0 => format!("KEY_{}", (b'A' + rng.below(26) as u8) as char),
            // case variants and digits
            1 => {
                let base = ["a", "A", "aa", "aA", "Aa", "AA", "a1", "A1", "a_", "A_", "a0", "a00", "B", "b"];
                rng.pick(&base).to_string()
            }
            // reserved words
            2 => rng.pick(RESERVED_NAMES).to_string(),
            // long names with shared prefix
            3 => format!("SIGNATURE_OF_PARTY_{}", rng.below(12)),
            // prefixes of each other
            4 => "X".repeat(1 + rng.below(7)),
            _ => {
                let len = 1 + rng.below(10);
                let mut s = String::new();
                for i in 0..len {
                    let alpha = b"ABCDEFGHIJKLMNOPQRSTUVWXYZabcdefghijklmnopqrstuvwxyz";
                    let rest = b"ABCDEFGHIJKLMNOPQRSTUVWXYZabcdefghijklmnopqrstuvwxyz0123456789_";
                    let c = if i == 0 { *rng.pick(alpha) } else { *rng.pick(rest) };
                    s.push(c as char);
                }
                s
            }
        };
        if !names.contains(&name) {
            names.push(name);
        }
    }
    names
}
