//! Shared machinery of the simfony simulation: PRNG, seams, workload, operations, reference model.
pub mod corpus;
pub mod digest;
pub mod gen;
pub mod mutate;
pub mod ops;
pub mod prng;
pub mod report;
pub mod seam;
pub mod valgen;

use std::collections::BTreeMap;

pub const DEFAULT_SEED: u64 = 20260922;

/// Tier dependent sizes, one place.
#[derive(Clone, Debug)]
pub struct Sizes {
    pub generated: usize,
    pub mutated: usize,
    pub layout: usize,
    pub literal: usize,
}

pub fn sizes(tier: &str) -> Sizes {
    match tier {
        "thorough" => Sizes { generated: 600, mutated: 400, layout: 400, literal: 400 },
        _ => Sizes { generated: 60, mutated: 40, layout: 40, literal: 40 },
    }
}

/// Golden reference table: (case index, args index, debug) -> outcome.
pub type Golden = BTreeMap<(usize, usize, bool), ops::Outcome>;

pub fn golden_to_json(g: &Golden) -> serde_json::Value {
    serde_json::Value::Array(
        g.iter()
            .map(|((c, a, d), o)| serde_json::json!({"case": c, "args": a, "debug": d, "outcome": o.to_json()}))
            .collect(),
    )
}

pub fn golden_from_json(v: &serde_json::Value) -> Option<Golden> {
    let mut g = Golden::new();
    for e in v.as_array()? {
        let c = e.get("case")?.as_u64()? as usize;
        let a = e.get("args")?.as_u64()? as usize;
        let d = e.get("debug")?.as_bool()?;
        g.insert((c, a, d), ops::Outcome::from_json(e.get("outcome")?)?);
    }
    Some(g)
}
