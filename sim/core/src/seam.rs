//! Access to the LD_PRELOAD shim (S1) from inside the harness, and hash epochs.

use std::ffi::c_void;
use std::os::raw::c_char;

extern "C" {
    fn dlsym(handle: *mut c_void, symbol: *const c_char) -> *mut c_void;
}

fn sym(name: &'static [u8]) -> *mut c_void {
    // RTLD_DEFAULT == NULL on glibc
    unsafe { dlsym(std::ptr::null_mut(), name.as_ptr() as *const c_char) }
}

/// True when the shim is preloaded.
pub fn present() -> bool {
    !sym(b"simseam_reseed\0").is_null()
}

/// Restart the entropy stream of the shim.
pub fn reseed(seed: u64) {
    let p = sym(b"simseam_reseed\0");
    assert!(!p.is_null(), "libsimseam.so is not preloaded (harness error)");
    let f: extern "C" fn(u64) = unsafe { std::mem::transmute(p) };
    f(seed)
}

pub fn draws() -> u64 {
    let p = sym(b"simseam_draws\0");
    if p.is_null() {
        return 0;
    }
    let f: extern "C" fn() -> u64 = unsafe { std::mem::transmute(p) };
    f()
}

pub const STACK: usize = 512 << 20;

/// Run `f` in a new hash epoch: reseed the shim and continue on a fresh OS thread (std caches the
/// SipHash keys per thread; a new thread draws new keys from the reseeded stream).  The caller
/// blocks until the epoch is over, so exactly one thread is ever active.
pub fn epoch<T: Send, F: FnOnce() -> T + Send>(seed: u64, f: F) -> T {
    reseed(seed);
    std::thread::scope(|s| {
        std::thread::Builder::new()
            .stack_size(STACK)
            .spawn_scoped(s, f)
            .expect("spawn epoch thread")
            .join()
            .expect("epoch thread panicked outside catch_unwind")
    })
}

/// Fingerprint of the current thread's hash order: iteration order of a fixed 12-key std HashMap.
/// Two epochs with different fingerprints really iterate in different orders.
pub fn order_fingerprint() -> u64 {
    let mut m = std::collections::HashMap::new();
    for i in 0..12u32 {
        m.insert(format!("k{i}"), i);
    }
    let mut buf = Vec::new();
    for (_, v) in &m {
        buf.push(*v as u8);
    }
    crate::digest::fnv1a(&buf)
}
