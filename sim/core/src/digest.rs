//! FNV-1a-64 digests used in event logs (never a clock, pid or pointer).

pub fn fnv1a(bytes: &[u8]) -> u64 {
    let mut h: u64 = 0xcbf2_9ce4_8422_2325;
    for b in bytes {
        h ^= *b as u64;
        h = h.wrapping_mul(0x0000_0100_0000_01b3);
    }
    h
}

pub fn hex(bytes: &[u8]) -> String {
    let mut s = String::with_capacity(bytes.len() * 2);
    for b in bytes {
        s.push_str(&format!("{:02x}", b));
    }
    s
}

pub fn unhex(s: &str) -> Option<Vec<u8>> {
    if s.len() % 2 != 0 {
        return None;
    }
    (0..s.len() / 2)
        .map(|i| u8::from_str_radix(&s[2 * i..2 * i + 2], 16).ok())
        .collect()
}

pub fn h16(x: u64) -> String {
    format!("{:016x}", x)
}
