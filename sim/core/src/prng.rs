//! SplitMix64: the only source of choices in the simulator.

#[derive(Clone, Debug)]
pub struct Prng(pub u64);

pub fn splitmix64(state: &mut u64) -> u64 {
    *state = state.wrapping_add(0x9E37_79B9_7F4A_7C15);
    let mut z = *state;
    z = (z ^ (z >> 30)).wrapping_mul(0xBF58_476D_1CE4_E5B9);
    z = (z ^ (z >> 27)).wrapping_mul(0x94D0_49BB_1331_11EB);
    z ^ (z >> 31)
}

/// One-shot mix (used to derive run seeds).
pub fn mix(x: u64) -> u64 {
    let mut s = x;
    splitmix64(&mut s)
}

/// Tag a leg name into a u64.
pub fn tag(s: &str) -> u64 {
    crate::digest::fnv1a(s.as_bytes())
}

impl Prng {
    pub fn new(seed: u64) -> Self {
        Prng(seed)
    }
    pub fn next(&mut self) -> u64 {
        splitmix64(&mut self.0)
    }
    /// Uniform in 0..n (n > 0).
    pub fn below(&mut self, n: usize) -> usize {
        debug_assert!(n > 0);
        (self.next() % (n as u64)) as usize
    }
    /// Uniform in lo..=hi.
    pub fn range(&mut self, lo: usize, hi: usize) -> usize {
        lo + self.below(hi - lo + 1)
    }
    pub fn chance(&mut self, permille: u32) -> bool {
        (self.next() % 1000) < permille as u64
    }
    pub fn coin(&mut self) -> bool {
        self.next() & 1 == 1
    }
    pub fn pick<'a, T>(&mut self, xs: &'a [T]) -> &'a T {
        &xs[self.below(xs.len())]
    }
    pub fn shuffle<T>(&mut self, xs: &mut [T]) {
        for i in (1..xs.len()).rev() {
            let j = self.below(i + 1);
            xs.swap(i, j);
        }
    }
    pub fn fork(&mut self) -> Prng {
        Prng(self.next())
    }
}
