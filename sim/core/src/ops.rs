//! Operations on the system under test and what is observed from them.

use std::panic::{catch_unwind, AssertUnwindSafe};
use std::sync::Arc;

use simfony::{Arguments, CompiledProgram, TemplateProgram, WitnessValues};

/// What one compilation (or one `commit()` on a handle) produced.
#[derive(Clone, Debug, PartialEq, Eq)]
pub enum Outcome {
    /// commit encoding and CMR
    Ok { bytes: Vec<u8>, cmr: [u8; 32] },
    /// the library returned an error (text kept for the report, never compared)
    Err(String),
    /// the library panicked (outside C19's domain when it happens in the golden run)
    Panic(String),
}

impl Outcome {
    /// Class + digest; the unit that is compared.
    pub fn key(&self) -> String {
        match self {
            Outcome::Ok { bytes, cmr } => format!(
                "ok:{}:{}",
                crate::digest::h16(crate::digest::fnv1a(bytes)),
                crate::digest::hex(&cmr[..8])
            ),
            Outcome::Err(_) => "err".to_string(),
            Outcome::Panic(_) => "panic".to_string(),
        }
    }
    pub fn class(&self) -> &'static str {
        match self {
            Outcome::Ok { .. } => "ok",
            Outcome::Err(_) => "err",
            Outcome::Panic(_) => "panic",
        }
    }
    pub fn to_json(&self) -> serde_json::Value {
        match self {
            Outcome::Ok { bytes, cmr } => serde_json::json!({
                "class": "ok", "bytes": crate::digest::hex(bytes), "cmr": crate::digest::hex(cmr)}),
            Outcome::Err(e) => serde_json::json!({"class": "err", "message": e}),
            Outcome::Panic(e) => serde_json::json!({"class": "panic", "message": e}),
        }
    }
    pub fn from_json(v: &serde_json::Value) -> Option<Outcome> {
        match v.get("class")?.as_str()? {
            "ok" => {
                let bytes = crate::digest::unhex(v.get("bytes")?.as_str()?)?;
                let c = crate::digest::unhex(v.get("cmr")?.as_str()?)?;
                let mut cmr = [0u8; 32];
                if c.len() != 32 {
                    return None;
                }
                cmr.copy_from_slice(&c);
                Some(Outcome::Ok { bytes, cmr })
            }
            "err" => Some(Outcome::Err(v.get("message")?.as_str()?.to_string())),
            "panic" => Some(Outcome::Panic(v.get("message")?.as_str()?.to_string())),
            _ => None,
        }
    }
}

thread_local! {
    static LAST_PANIC: std::cell::RefCell<String> = const { std::cell::RefCell::new(String::new()) };
}

/// Install a panic hook that records the message instead of printing it.
pub fn quiet_panics() {
    std::panic::set_hook(Box::new(|info| {
        let msg = if let Some(s) = info.payload().downcast_ref::<&str>() {
            s.to_string()
        } else if let Some(s) = info.payload().downcast_ref::<String>() {
            s.clone()
        } else {
            "<non-string panic>".to_string()
        };
        let loc = info
            .location()
            .map(|l| {
                let f = l.file();
                let f = f.rsplit('/').next().unwrap_or(f);
                format!(" at {}:{}", f, l.line())
            })
            .unwrap_or_default();
        LAST_PANIC.with(|p| *p.borrow_mut() = format!("{msg}{loc}"));
    }));
}

pub fn last_panic() -> String {
    LAST_PANIC.with(|p| p.borrow().clone())
}

pub fn guarded<T>(f: impl FnOnce() -> T) -> Result<T, String> {
    catch_unwind(AssertUnwindSafe(f)).map_err(|_| last_panic())
}

thread_local! {
    static ARG_ROUTE: std::cell::Cell<u8> = const { std::cell::Cell::new(0) };
}

/// Select how the next argument maps on this thread are constructed (0 = JSON text as given,
/// 1 = JSON with reversed key order, 2 = printed as `mod param {..}` and parsed back,
/// 3 = rebuilt through a large-capacity HashMap in sorted insertion order).  All routes give an
/// equal `Arguments`: "the same arguments" supplied by a different history.
pub fn set_arg_route(r: u8) {
    ARG_ROUTE.with(|c| c.set(r));
}

/// Parse an argument map given as JSON text (`{}` = no arguments).
pub fn parse_args(json: &str) -> Result<Arguments, String> {
    use simfony::parse::ParseFromStr;
    let base = serde_json::from_str::<Arguments>(json).map_err(|e| e.to_string())?;
    let route = ARG_ROUTE.with(|c| c.get());
    let alt: Option<Arguments> = match route {
        1 => serde_json::from_str::<serde_json::Value>(json).ok().and_then(|v| {
            let obj = v.as_object()?;
            let parts: Vec<String> = obj.iter().rev().map(|(k, v)| format!("{}: {}", serde_json::to_string(k).unwrap(), v)).collect();
            serde_json::from_str::<Arguments>(&format!("{{{}}}", parts.join(", "))).ok()
        }),
        2 => Arguments::parse_from_str(&base.to_string()).ok(),
        3 => {
            let mut names: Vec<_> = base.iter().map(|(n, v)| (n.clone(), v.clone())).collect();
            names.sort_by(|a, b| a.0.cmp(&b.0));
            let mut m = std::collections::HashMap::with_capacity(1024);
            for (n, v) in names {
                m.insert(n, v);
            }
            Some(Arguments::from(m))
        }
        _ => None,
    };
    // a route that does not reproduce an equal map is not used (that would be C15's business)
    match alt {
        Some(a) if a == base => Ok(a),
        _ => Ok(base),
    }
}

pub fn parse_witness(json: &str) -> Result<WitnessValues, String> {
    serde_json::from_str::<WitnessValues>(json).map_err(|e| e.to_string())
}

pub fn observe_commit(c: &CompiledProgram) -> Outcome {
    match guarded(|| {
        let node = c.commit();
        let bytes = node.encode_to_vec();
        let cmr: [u8; 32] = node.cmr().to_byte_array();
        (bytes, cmr)
    }) {
        Ok((bytes, cmr)) => Outcome::Ok { bytes, cmr },
        Err(p) => Outcome::Panic(p),
    }
}

thread_local! {
    static BUFFER_TURN: std::cell::Cell<u32> = const { std::cell::Cell::new(0) };
}

/// How the source text reaches the library: three times out of four in a freshly allocated buffer
/// that dies with the template (what `simc` and most callers do: the allocator may hand the same
/// address to the next source), otherwise as a clone of one long-lived `Arc<str>`.
fn source_buffer(text: &Arc<str>) -> Arc<str> {
    let turn = BUFFER_TURN.with(|t| {
        let v = t.get();
        t.set(v.wrapping_add(1));
        v
    });
    if turn % 4 == 3 {
        Arc::clone(text)
    } else {
        Arc::from(&**text)
    }
}

/// `TemplateProgram::new`
pub fn new_template(text: &Arc<str>) -> Result<Result<TemplateProgram, String>, String> {
    let text = source_buffer(text);
    guarded(|| TemplateProgram::new(text))
}

/// `TemplateProgram::instantiate`
pub fn instantiate(
    t: &TemplateProgram,
    args_json: &str,
    debug: bool,
) -> Result<Result<CompiledProgram, String>, String> {
    let args = match parse_args(args_json) {
        Ok(a) => a,
        Err(e) => return Ok(Err(format!("arguments: {e}"))),
    };
    guarded(|| t.instantiate(args, debug))
}

/// The whole pipeline the way `simc` and most users run it.
pub fn compile_direct(text: &Arc<str>, args_json: &str, debug: bool) -> (Outcome, Option<CompiledProgram>) {
    let args = match parse_args(args_json) {
        Ok(a) => a,
        Err(e) => return (Outcome::Err(format!("arguments: {e}")), None),
    };
    let text = source_buffer(text);
    match guarded(|| CompiledProgram::new(text, args, debug)) {
        Err(p) => (Outcome::Panic(p), None),
        Ok(Err(e)) => (Outcome::Err(e), None),
        Ok(Ok(c)) => {
            let o = observe_commit(&c);
            (o, Some(c))
        }
    }
}

/// Observation of `satisfy` (not judged by C19; reported as counters).
pub fn observe_satisfy(c: &CompiledProgram, witness_json: &str) -> String {
    let w = match parse_witness(witness_json) {
        Ok(w) => w,
        Err(_) => return "witness-parse-err".into(),
    };
    match guarded(|| c.satisfy(w)) {
        Err(_) => "panic".into(),
        Ok(Err(_)) => "err".into(),
        Ok(Ok(s)) => {
            let (p, w) = s.redeem().encode_to_vec();
            let mut all = p;
            all.extend_from_slice(&w);
            format!("ok:{}", crate::digest::h16(crate::digest::fnv1a(&all)))
        }
    }
}
