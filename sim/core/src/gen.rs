//! Seeded generator of (mostly) accepted Simfony programs.
//!
//! Compile-only workload: the run-time truth of assertions is irrelevant.  Acceptance is never
//! assumed: the golden run decides it, and a rejected text is just a case for the error path.
//! The generator is built to fill every hash table of the front end: many tracked calls (jets,
//! assert!, unwrap*, dbg!, panic!) on one line and across lines, helper functions called from
//! several sites, fold / for_while bodies, witnesses, parameters, aliases, shadowing.

use crate::corpus::Case;
use crate::prng::Prng;
use std::sync::Arc;

#[derive(Clone, PartialEq, Eq, Debug)]
pub enum Ty {
    Bool,
    U(u16),
    Tuple(Vec<Ty>),
    Array(Box<Ty>, usize),
    Opt(Box<Ty>),
    Either(Box<Ty>, Box<Ty>),
    List(Box<Ty>, usize),
}

impl Ty {
    pub fn unit() -> Ty {
        Ty::Tuple(vec![])
    }
    pub fn show(&self) -> String {
        match self {
            Ty::Bool => "bool".into(),
            Ty::U(n) => format!("u{n}"),
            Ty::Tuple(ts) => match ts.len() {
                0 => "()".into(),
                1 => format!("({},)", ts[0].show()),
                _ => format!("({})", ts.iter().map(|t| t.show()).collect::<Vec<_>>().join(", ")),
            },
            Ty::Array(t, n) => format!("[{}; {}]", t.show(), n),
            Ty::Opt(t) => format!("Option<{}>", t.show()),
            Ty::Either(a, b) => format!("Either<{}, {}>", a.show(), b.show()),
            Ty::List(t, b) => format!("List<{}, {}>", t.show(), b),
        }
    }
}

#[derive(Clone)]
struct Func {
    name: String,
    params: Vec<(String, Ty)>,
    ret: Ty,
}

pub struct Gen<'a> {
    rng: &'a mut Prng,
    aliases: Vec<(String, Ty)>,
    funcs: Vec<Func>,
    folds: Vec<(String, Ty, Ty)>,            // name, elem, acc
    loops: Vec<(String, Ty, Ty, Ty, u16)>,   // name, acc, ctx, brk, counter bits
    env: Vec<(String, Ty)>,
    in_main: bool,
    witnesses: Vec<(String, Ty)>,
    params: Vec<(String, Ty)>,
    budget: i32,
    oneline: bool,
    name_ctr: usize,
    scale: usize,
}

const VAR_NAMES: &[&str] = &["a", "b", "c", "x", "y", "z", "acc", "v", "w", "tmp", "res", "n"];

fn int_lit(rng: &mut Prng, bits: u16) -> String {
    let max: u128 = if bits >= 128 { u128::MAX } else { (1u128 << bits) - 1 };
    let v: u128 = match rng.below(5) {
        0 => 0,
        1 => max,
        2 => 1 & max,
        _ => {
            let r = ((rng.next() as u128) << 64) | rng.next() as u128;
            r & max
        }
    };
    let style = rng.below(4);
    if bits == 256 {
        // 64 hex digits
        let hi = ((rng.next() as u128) << 64) | rng.next() as u128;
        return format!("0x{:032x}{:032x}", hi, v);
    }
    match style {
        0 if bits >= 8 => format!("0x{:0width$x}", v, width = (bits / 4) as usize),
        1 if bits <= 16 => format!("0b{:0width$b}", v, width = bits as usize),
        _ => format!("{v}"),
    }
}

/// A closed literal (const expression) of the given type.
pub fn literal(rng: &mut Prng, ty: &Ty, depth: usize) -> String {
    match ty {
        Ty::Bool => if rng.coin() { "true".into() } else { "false".into() },
        Ty::U(n) => int_lit(rng, *n),
        Ty::Tuple(ts) => match ts.len() {
            0 => "()".into(),
            1 => format!("({},)", literal(rng, &ts[0], depth + 1)),
            _ => format!(
                "({})",
                ts.iter().map(|t| literal(rng, t, depth + 1)).collect::<Vec<_>>().join(", ")
            ),
        },
        Ty::Array(t, n) => {
            if **t == Ty::U(8) && *n > 0 && rng.coin() {
                let mut s = String::from("0x");
                for _ in 0..*n {
                    s.push_str(&format!("{:02x}", rng.below(256)));
                }
                return s;
            }
            format!(
                "[{}]",
                (0..*n).map(|_| literal(rng, t, depth + 1)).collect::<Vec<_>>().join(", ")
            )
        }
        Ty::Opt(t) => {
            if rng.below(3) == 0 {
                "None".into()
            } else {
                format!("Some({})", literal(rng, t, depth + 1))
            }
        }
        Ty::Either(a, b) => {
            if rng.coin() {
                format!("Left({})", literal(rng, a, depth + 1))
            } else {
                format!("Right({})", literal(rng, b, depth + 1))
            }
        }
        Ty::List(t, bound) => {
            let n = rng.below(*bound);
            format!(
                "list![{}]",
                (0..n).map(|_| literal(rng, t, depth + 1)).collect::<Vec<_>>().join(", ")
            )
        }
    }
}

impl<'a> Gen<'a> {
    fn fresh(&mut self, prefix: &str) -> String {
        self.name_ctr += 1;
        format!("{prefix}{}", self.name_ctr)
    }

    fn ty_str(&mut self, ty: &Ty) -> String {
        let hits: Vec<String> = self
            .aliases
            .iter()
            .filter(|(_, t)| t == ty)
            .map(|(n, _)| n.clone())
            .collect();
        if !hits.is_empty() && self.rng.coin() {
            return self.rng.pick(&hits).clone();
        }
        match ty {
            Ty::Tuple(ts) if ts.len() >= 2 => {
                let parts: Vec<String> = ts.iter().map(|t| self.ty_str(t)).collect();
                format!("({})", parts.join(", "))
            }
            Ty::Array(t, n) => format!("[{}; {}]", self.ty_str(t), n),
            Ty::Opt(t) => format!("Option<{}>", self.ty_str(t)),
            Ty::Either(a, b) => format!("Either<{}, {}>", self.ty_str(a), self.ty_str(b)),
            Ty::List(t, b) => format!("List<{}, {}>", self.ty_str(t), b),
            _ => ty.show(),
        }
    }

    fn base_ty(&mut self) -> Ty {
        match self.rng.below(12) {
            0 => Ty::Bool,
            1 => Ty::U(1),
            2 | 3 => Ty::U(8),
            4 => Ty::U(16),
            5 | 6 => Ty::U(32),
            7 => Ty::U(64),
            8 => Ty::Tuple(vec![Ty::U(8), Ty::U(32)]),
            9 => Ty::Array(Box::new(Ty::U(8)), 3),
            10 => Ty::Opt(Box::new(Ty::U(8))),
            _ => Ty::Either(Box::new(Ty::U(8)), Box::new(Ty::Bool)),
        }
    }

    fn any_ty(&mut self, depth: usize) -> Ty {
        if depth >= 2 || self.rng.below(3) > 0 {
            return self.base_ty();
        }
        match self.rng.below(8) {
            0 => Ty::Tuple(vec![self.any_ty(depth + 1), self.any_ty(depth + 1)]),
            1 => Ty::Tuple(vec![self.base_ty(), self.base_ty(), self.base_ty()]),
            2 => {
                let n = self.rng.below(4);
                Ty::Array(Box::new(self.any_ty(depth + 1)), n)
            }
            3 => Ty::Opt(Box::new(self.any_ty(depth + 1))),
            4 => Ty::Either(Box::new(self.any_ty(depth + 1)), Box::new(self.any_ty(depth + 1))),
            5 => Ty::List(Box::new(self.base_ty()), *self.rng.pick(&[2usize, 4, 8])),
            6 => Ty::unit(),
            _ => Ty::U(*self.rng.pick(&[2u16, 4, 128, 256])),
        }
    }

    fn vars_of(&self, ty: &Ty) -> Vec<String> {
        // only names whose most recent binding has this type
        let mut seen: Vec<&str> = Vec::new();
        let mut out = Vec::new();
        for (n, t) in self.env.iter().rev() {
            if seen.contains(&n.as_str()) {
                continue;
            }
            seen.push(n);
            if t == ty {
                out.push(n.clone());
            }
        }
        out
    }

    fn sep(&mut self) -> &'static str {
        if self.oneline {
            " "
        } else {
            "\n"
        }
    }

    pub fn expr(&mut self, ty: &Ty, depth: usize) -> String {
        self.budget -= 1;
        let leafy = depth >= 4 || self.budget <= 0;
        // variable?
        let vars = self.vars_of(ty);
        if !vars.is_empty() && self.rng.below(if leafy { 2 } else { 4 }) == 0 {
            return self.rng.pick(&vars).clone();
        }
        if leafy {
            if !vars.is_empty() && self.rng.coin() {
                return self.rng.pick(&vars).clone();
            }
            return literal(self.rng, ty, depth);
        }
        let d = depth + 1;
        // generic forms, any type
        match self.rng.below(22) {
            0 | 1 => return literal(self.rng, ty, depth),
            2 => {
                // block with lets
                let nl = 1 + self.rng.below(2);
                return self.block(ty, d, nl);
            }
            3 => {
                // match on bool
                let s = self.expr(&Ty::Bool, d);
                let t = self.arm_body(ty, d);
                let f = self.arm_body(ty, d);
                let (first, second) = if self.rng.coin() {
                    (format!("true => {t}"), format!("false => {f}"))
                } else {
                    (format!("false => {f}"), format!("true => {t}"))
                };
                return format!("match {s} {{ {first} {second} }}");
            }
            4 => {
                // match on option
                let inner = self.any_ty(1);
                let s = self.expr(&Ty::Opt(Box::new(inner.clone())), d);
                let v = self.pick_var_name();
                let its = self.ty_str(&inner);
                self.env.push((v.clone(), inner));
                let some = self.arm_body(ty, d);
                self.env.pop();
                let none = self.arm_body(ty, d);
                return if self.rng.coin() {
                    format!("match {s} {{ None => {none} Some({v}: {its}) => {some} }}")
                } else {
                    format!("match {s} {{ Some({v}: {its}) => {some} None => {none} }}")
                };
            }
            5 => {
                // match on either
                let l = self.any_ty(1);
                let r = self.any_ty(1);
                let s = self.expr(&Ty::Either(Box::new(l.clone()), Box::new(r.clone())), d);
                let v = self.pick_var_name();
                let ls = self.ty_str(&l);
                let rs = self.ty_str(&r);
                self.env.push((v.clone(), l));
                let la = self.arm_body(ty, d);
                self.env.pop();
                let v2 = self.pick_var_name();
                self.env.push((v2.clone(), r));
                let ra = self.arm_body(ty, d);
                self.env.pop();
                return format!("match {s} {{ Left({v}: {ls}) => {la} Right({v2}: {rs}) => {ra} }}");
            }
            6 => {
                // helper call
                let cands: Vec<Func> = self.funcs.iter().filter(|f| &f.ret == ty).cloned().collect();
                if !cands.is_empty() {
                    let f = self.rng.pick(&cands).clone();
                    let args: Vec<String> = f.params.iter().map(|(_, t)| self.expr(t, d)).collect();
                    return format!("{}({})", f.name, args.join(", "));
                }
            }
            7 => {
                let e = self.expr(ty, d);
                return format!("dbg!({e})");
            }
            8 => {
                let e = self.expr(&Ty::Opt(Box::new(ty.clone())), d);
                return format!("unwrap({e})");
            }
            9 => {
                let other = self.base_ty();
                let os = self.ty_str(&other);
                return if self.rng.coin() {
                    let e = self.expr(&Ty::Either(Box::new(ty.clone()), Box::new(other)), d);
                    format!("unwrap_left::<{os}>({e})")
                } else {
                    let e = self.expr(&Ty::Either(Box::new(other), Box::new(ty.clone())), d);
                    format!("unwrap_right::<{os}>({e})")
                };
            }
            10 if self.in_main => {
                let name = format!("W{}", self.witnesses.len());
                self.witnesses.push((name.clone(), ty.clone()));
                return format!("witness::{name}");
            }
            11 => {
                let existing: Vec<String> =
                    self.params.iter().filter(|(_, t)| t == ty).map(|(n, _)| n.clone()).collect();
                let name = if !existing.is_empty() && self.rng.coin() {
                    self.rng.pick(&existing).clone()
                } else if self.params.len() < 4 * self.scale {
                    let n = format!("P{}", self.params.len());
                    self.params.push((n.clone(), ty.clone()));
                    n
                } else {
                    return literal(self.rng, ty, depth);
                };
                return format!("param::{name}");
            }
            12 => {
                // fold
                let cands: Vec<(String, Ty, Ty)> =
                    self.folds.iter().filter(|(_, _, a)| a == ty).cloned().collect();
                if !cands.is_empty() {
                    let (f, elem, acc) = self.rng.pick(&cands).clone();
                    let bound = *self.rng.pick(&[2usize, 4, 8]);
                    let list = self.expr(&Ty::List(Box::new(elem), bound), d);
                    let init = self.expr(&acc, d);
                    return format!("fold::<{f}, {bound}>({list}, {init})");
                }
            }
            13 => {
                // cast from a structurally equal type
                if let Some((src, srcs)) = self.cast_source(ty) {
                    let e = self.expr(&src, d);
                    return format!("<{srcs}>::into({e})");
                }
            }
            _ => {}
        }
        // type directed forms
        match ty.clone() {
            Ty::Bool => match self.rng.below(6) {
                0 => {
                    let n = *self.rng.pick(&[8u16, 16, 32, 64]);
                    let a = self.expr(&Ty::U(n), d);
                    let b = self.expr(&Ty::U(n), d);
                    let j = *self.rng.pick(&["eq", "le", "lt"]);
                    format!("jet::{j}_{n}({a}, {b})")
                }
                1 => {
                    let n = *self.rng.pick(&[8u16, 16, 32, 64]);
                    let a = self.expr(&Ty::U(n), d);
                    format!("jet::is_zero_{n}({a})")
                }
                2 => {
                    let t = self.any_ty(1);
                    let ts = self.ty_str(&t);
                    let e = self.expr(&Ty::Opt(Box::new(t)), d);
                    format!("is_none::<{ts}>({e})")
                }
                3 => {
                    let a = self.expr(&Ty::U(1), d);
                    format!("<u1>::into({a})")
                }
                _ => literal(self.rng, ty, depth),
            },
            Ty::U(n) if [8u16, 16, 32, 64].contains(&n) => match self.rng.below(7) {
                0 | 1 => {
                    let a = self.expr(&Ty::U(n), d);
                    let b = self.expr(&Ty::U(n), d);
                    let j = *self.rng.pick(&["xor", "and", "or", "max", "min"]);
                    format!("jet::{j}_{n}({a}, {b})")
                }
                2 => {
                    let a = self.expr(&Ty::U(n), d);
                    format!("jet::complement_{n}({a})")
                }
                3 if n >= 16 => {
                    let h = n / 2;
                    let a = self.expr(&Ty::U(h), d);
                    let b = self.expr(&Ty::U(h), d);
                    format!("jet::multiply_{h}({a}, {b})")
                }
                4 => {
                    // destructure an add inside a block
                    let a = self.expr(&Ty::U(n), d);
                    let b = self.expr(&Ty::U(n), d);
                    let j = *self.rng.pick(&["add", "subtract"]);
                    let s = self.fresh("s");
                    format!("{{ let (_, {s}): (bool, u{n}) = jet::{j}_{n}({a}, {b}); {s} }}")
                }
                _ => literal(self.rng, ty, depth),
            },
            Ty::Tuple(ts) => {
                if ts.len() == 2 && ts[0] == Ty::Bool {
                    if let Ty::U(n) = ts[1] {
                        if [8u16, 16, 32, 64].contains(&n) && self.rng.coin() {
                            let a = self.expr(&Ty::U(n), d);
                            return if self.rng.coin() {
                                let b = self.expr(&Ty::U(n), d);
                                format!("jet::add_{n}({a}, {b})")
                            } else {
                                format!("jet::increment_{n}({a})")
                            };
                        }
                    }
                }
                match ts.len() {
                    0 => "()".into(),
                    1 => format!("({},)", self.expr(&ts[0], d)),
                    _ => {
                        let parts: Vec<String> = ts.iter().map(|t| self.expr(t, d)).collect();
                        let trailing = if self.rng.below(4) == 0 { "," } else { "" };
                        format!("({}{trailing})", parts.join(", "))
                    }
                }
            }
            Ty::Array(t, n) => {
                let parts: Vec<String> = (0..n).map(|_| self.expr(&t, d)).collect();
                format!("[{}]", parts.join(", "))
            }
            Ty::Opt(t) => {
                if self.rng.below(4) == 0 {
                    "None".into()
                } else {
                    format!("Some({})", self.expr(&t, d))
                }
            }
            Ty::Either(a, b) => {
                // for_while?
                let cands: Vec<(String, Ty, Ty, Ty, u16)> = self
                    .loops
                    .iter()
                    .filter(|(_, acc, _, brk, _)| *brk == *a && *acc == *b)
                    .cloned()
                    .collect();
                if !cands.is_empty() && self.rng.coin() {
                    let (g, acc, ctx, _, _) = self.rng.pick(&cands).clone();
                    let ae = self.expr(&acc, d);
                    let ce = self.expr(&ctx, d);
                    return format!("for_while::<{g}>({ae}, {ce})");
                }
                if self.rng.coin() {
                    format!("Left({})", self.expr(&a, d))
                } else {
                    format!("Right({})", self.expr(&b, d))
                }
            }
            Ty::List(t, bound) => {
                let n = self.rng.below(bound);
                let parts: Vec<String> = (0..n).map(|_| self.expr(&t, d)).collect();
                format!("list![{}]", parts.join(", "))
            }
            _ => literal(self.rng, ty, depth),
        }
    }

    fn cast_source(&mut self, ty: &Ty) -> Option<(Ty, String)> {
        let src = match ty {
            Ty::U(n) if *n >= 2 => Ty::Tuple(vec![Ty::U(n / 2), Ty::U(n / 2)]),
            Ty::U(1) => Ty::Bool,
            Ty::Bool => Ty::U(1),
            Ty::Opt(a) => Ty::Either(Box::new(Ty::unit()), a.clone()),
            Ty::Tuple(ts) if ts.len() == 2 && ts[0] == ts[1] => {
                if let Ty::U(n) = ts[0] {
                    if n < 256 {
                        Ty::U(n * 2)
                    } else {
                        return None;
                    }
                } else {
                    Ty::Array(Box::new(ts[0].clone()), 2)
                }
            }
            Ty::Tuple(ts) if ts.len() == 3 => {
                Ty::Tuple(vec![ts[0].clone(), Ty::Tuple(vec![ts[1].clone(), ts[2].clone()])])
            }
            Ty::Array(t, 2) => Ty::Tuple(vec![(**t).clone(), (**t).clone()]),
            Ty::List(t, 2) => Ty::Opt(t.clone()),
            _ => return None,
        };
        let s = self.ty_str(&src);
        Some((src, s))
    }

    fn pick_var_name(&mut self) -> String {
        if self.rng.below(3) == 0 {
            self.fresh("v")
        } else {
            self.rng.pick(VAR_NAMES).to_string()
        }
    }

    /// match arm body followed by its comma
    fn arm_body(&mut self, ty: &Ty, depth: usize) -> String {
        if self.rng.below(3) == 0 {
            let nl = self.rng.below(2);
            let b = self.block(ty, depth, nl);
            format!("{b},")
        } else {
            let e = self.expr(ty, depth);
            if e.starts_with('{') {
                format!("{e},")
            } else {
                format!("{e},")
            }
        }
    }

    fn let_stmt(&mut self, depth: usize) -> String {
        let ty = self.any_ty(0);
        let e = self.expr(&ty, depth);
        let tys = self.ty_str(&ty);
        // pattern
        let pat = match &ty {
            Ty::Tuple(ts) if ts.len() >= 2 && self.rng.coin() => {
                let mut names = Vec::new();
                for t in ts {
                    if self.rng.below(4) == 0 {
                        names.push("_".to_string());
                    } else {
                        let mut n = self.pick_var_name();
                        if names.contains(&n) {
                            n = self.fresh("q");
                        }
                        self.env.push((n.clone(), t.clone()));
                        names.push(n);
                    }
                }
                format!("({})", names.join(", "))
            }
            Ty::Array(t, n) if *n >= 1 && *n <= 4 && self.rng.coin() => {
                let mut names = Vec::new();
                for _ in 0..*n {
                    let mut v = self.pick_var_name();
                    if names.contains(&v) {
                        v = self.fresh("q");
                    }
                    self.env.push((v.clone(), (**t).clone()));
                    names.push(v);
                }
                format!("[{}]", names.join(", "))
            }
            _ => {
                if self.rng.below(10) == 0 {
                    "_".to_string()
                } else {
                    let n = self.pick_var_name();
                    self.env.push((n.clone(), ty.clone()));
                    n
                }
            }
        };
        format!("let {pat}: {tys} = {e};")
    }

    fn unit_stmt(&mut self, depth: usize) -> String {
        match self.rng.below(6) {
            0 | 1 => {
                let b = self.expr(&Ty::Bool, depth);
                format!("assert!({b});")
            }
            2 => {
                let cands: Vec<Func> =
                    self.funcs.iter().filter(|f| f.ret == Ty::unit()).cloned().collect();
                if cands.is_empty() {
                    let b = self.expr(&Ty::Bool, depth);
                    return format!("assert!({b});");
                }
                let f = self.rng.pick(&cands).clone();
                let args: Vec<String> = f.params.iter().map(|(_, t)| self.expr(t, depth)).collect();
                format!("{}({});", f.name, args.join(", "))
            }
            3 => {
                let b = self.expr(&Ty::Bool, depth);
                format!("match {b} {{ true => {{}}, false => panic!(), }};")
            }
            4 => {
                let b = self.expr(&Ty::Opt(Box::new(Ty::unit())), depth);
                format!("unwrap({b});")
            }
            _ => {
                let t = self.base_ty();
                let e = self.expr(&t, depth);
                let ts = self.ty_str(&t);
                format!("let _: {ts} = dbg!({e});")
            }
        }
    }

    fn block(&mut self, ty: &Ty, depth: usize, lets: usize) -> String {
        let mark = self.env.len();
        let mut s = String::from("{");
        for _ in 0..lets {
            let st = if self.rng.below(4) == 0 {
                self.unit_stmt(depth + 1)
            } else {
                self.let_stmt(depth + 1)
            };
            s.push(' ');
            s.push_str(&st);
        }
        if *ty == Ty::unit() && self.rng.coin() {
            s.push_str(" }");
        } else {
            let e = self.expr(ty, depth + 1);
            s.push(' ');
            s.push_str(&e);
            s.push_str(" }");
        }
        self.env.truncate(mark);
        s
    }

    fn comment(&mut self) -> String {
        match self.rng.below(3) {
            0 => "// note".to_string(),
            1 => "/* block\n   comment */".to_string(),
            _ => "// fn main() { let x: u8 = 1; }".to_string(),
        }
    }

    fn fn_body(&mut self, ret: &Ty, stmts: usize) -> String {
        let mark = self.env.len();
        let sep = self.sep();
        let indent = if self.oneline { "" } else { "    " };
        let mut s = String::from("{");
        s.push_str(sep);
        for _ in 0..stmts {
            if self.rng.below(12) == 0 && !self.oneline {
                let c = self.comment();
                s.push_str(indent);
                s.push_str(&c);
                s.push('\n');
            }
            self.budget = 12 + self.rng.below(20) as i32;
            let st = if self.rng.below(3) == 0 {
                self.unit_stmt(0)
            } else {
                self.let_stmt(0)
            };
            s.push_str(indent);
            s.push_str(&st);
            s.push_str(sep);
        }
        if *ret != Ty::unit() || self.rng.below(4) == 0 {
            self.budget = 12 + self.rng.below(20) as i32;
            let e = self.expr(ret, 0);
            s.push_str(indent);
            s.push_str(&e);
            s.push_str(sep);
        }
        s.push('}');
        self.env.truncate(mark);
        s
    }
}

/// Render a value literal as the JSON entry `{ "value": .., "type": .. }`.
fn json_entry(name: &str, lit: &str, ty: &Ty) -> (String, serde_json::Value) {
    (name.to_string(), serde_json::json!({"value": lit, "type": ty.show()}))
}

pub fn program(rng: &mut Prng, id: &str) -> Case {
    let oneline = rng.below(5) == 0;
    // one program in ten is large: tables of 10..20 functions, aliases and parameters, ~100 statements
    let scale = if rng.below(10) == 0 { 4 } else { 1 };
    let mut g = Gen {
        rng,
        aliases: Vec::new(),
        funcs: Vec::new(),
        folds: Vec::new(),
        loops: Vec::new(),
        env: Vec::new(),
        in_main: false,
        witnesses: Vec::new(),
        params: Vec::new(),
        budget: 0,
        oneline,
        name_ctr: 0,
        scale,
    };
    let mut items: Vec<String> = Vec::new();
    // aliases
    let n_alias = g.rng.below(4 * scale);
    for i in 0..n_alias {
        let t = g.any_ty(0);
        let ts = g.ty_str(&t);
        let name = format!("{}{}", g.rng.pick(&["Al", "T", "My", "Word"]), i);
        items.push(format!("type {name} = {ts};"));
        g.aliases.push((name, t));
    }
    // helpers
    let n_funcs = g.rng.below(5 * scale);
    for i in 0..n_funcs {
        let kind = g.rng.below(6);
        let name = format!("{}{}", g.rng.pick(&["helper", "f", "calc", "step"]), i);
        match kind {
            0 => {
                // fold function
                let elem = g.base_ty();
                let acc = g.base_ty();
                let (es, acs) = (g.ty_str(&elem), g.ty_str(&acc));
                g.env = vec![("e".into(), elem.clone()), ("acc".into(), acc.clone())];
                let stmts = g.rng.below(3);
                let body = g.fn_body(&acc, stmts);
                g.env.clear();
                items.push(format!("fn {name}(e: {es}, acc: {acs}) -> {acs} {body}"));
                g.folds.push((name, elem, acc));
            }
            1 => {
                // loop function
                let acc = g.base_ty();
                let ctx = if g.rng.coin() { Ty::unit() } else { g.base_ty() };
                let brk = g.base_ty();
                let bits = *g.rng.pick(&[1u16, 2, 4, 8]);
                let ret = Ty::Either(Box::new(brk.clone()), Box::new(acc.clone()));
                let (acs, cs, rs) = (g.ty_str(&acc), g.ty_str(&ctx), g.ty_str(&ret));
                g.env = vec![
                    ("acc".into(), acc.clone()),
                    ("ctx".into(), ctx.clone()),
                    ("i".into(), Ty::U(bits)),
                ];
                let stmts = g.rng.below(3);
                let body = g.fn_body(&ret, stmts);
                g.env.clear();
                items.push(format!("fn {name}(acc: {acs}, ctx: {cs}, i: u{bits}) -> {rs} {body}"));
                g.loops.push((name, acc, ctx, brk, bits));
            }
            _ => {
                let np = g.rng.below(4);
                let mut params = Vec::new();
                for k in 0..np {
                    let t = g.any_ty(1);
                    params.push((format!("{}{}", g.rng.pick(&["p", "arg", "x"]), k), t));
                }
                let ret = if g.rng.below(4) == 0 { Ty::unit() } else { g.any_ty(1) };
                let ps: Vec<String> = params
                    .clone()
                    .iter()
                    .map(|(n, t)| format!("{n}: {}", g.ty_str(t)))
                    .collect();
                let rs = g.ty_str(&ret);
                g.env = params.clone();
                let stmts = g.rng.below(4);
                let body = g.fn_body(&ret, stmts);
                g.env.clear();
                let header_rest = if ret == Ty::unit() && g.rng.coin() {
                    format!("({}) {body}", ps.join(", "))
                } else {
                    format!("({}) -> {rs} {body}", ps.join(", "))
                };
                items.push(format!("fn {name}{header_rest}"));
                // twins: the same function under one or two more names (identical parameters and
                // body; only name and position differ), all callable from later code
                if g.rng.below(4) == 0 {
                    for k in 0..g.rng.range(1, 2) {
                        let twin = format!("{name}_twin{k}");
                        items.push(format!("fn {twin}{header_rest}"));
                        g.funcs.push(Func { name: twin, params: params.clone(), ret: ret.clone() });
                    }
                }
                g.funcs.push(Func { name, params, ret });
            }
        }
    }
    // main
    g.in_main = true;
    let stmts = 3 * scale + g.rng.below(23 * scale);
    let body = g.fn_body(&Ty::unit(), stmts);
    items.push(format!("fn main() {body}"));
    let joiner = if g.oneline { " " } else { "\n\n" };
    let text = items.join(joiner);

    // argument maps: one consistent map, plus variations
    let mut args = Vec::new();
    let params = g.params.clone();
    let witnesses = g.witnesses.clone();
    let mk = |rng: &mut Prng, entries: &[(String, Ty)]| -> String {
        let mut m = serde_json::Map::new();
        let mut order: Vec<usize> = (0..entries.len()).collect();
        rng.shuffle(&mut order);
        for i in order {
            let (n, t) = &entries[i];
            let lit = literal(rng, t, 0);
            let (k, v) = json_entry(n, &lit, t);
            m.insert(k, v);
        }
        serde_json::Value::Object(m).to_string()
    };
    if params.is_empty() {
        args.push("{}".to_string());
    } else {
        args.push(mk(g.rng, &params));
        args.push(mk(g.rng, &params));
        // one map with a missing / ill-typed entry (error path of instantiate)
        let mut broken = params.clone();
        if g.rng.coin() {
            broken.pop();
        } else {
            broken[0].1 = if broken[0].1 == Ty::U(16) { Ty::U(8) } else { Ty::U(16) };
        }
        args.push(mk(g.rng, &broken));
        args.push("{}".to_string());
    }
    let witness = Some(mk(g.rng, &witnesses));
    Case { id: id.to_string(), origin: "generated", text: Arc::from(text), args, witness, family: usize::MAX }
}
