//! The workload: programs (with optional argument maps and a witness map).
//!
//! The corpus is a deterministic function of (VERIF_SEED, tier, files on disk read in sorted
//! order), so every process of one check enumerates the same list and cases can be named by index.

use crate::prng::{mix, tag, Prng};
use std::path::Path;
use std::sync::Arc;

#[derive(Clone, Debug)]
pub struct Case {
    pub id: String,
    pub origin: &'static str, // example | corpus | generated | mutated
    pub text: Arc<str>,
    /// argument maps as JSON texts; never empty ("{}" = no arguments)
    pub args: Vec<String>,
    /// a witness map as JSON text, when one is known
    pub witness: Option<String>,
}

impl Case {
    pub fn to_json(&self) -> serde_json::Value {
        serde_json::json!({"id": self.id, "origin": self.origin, "text": &*self.text, "args": self.args, "witness": self.witness})
    }
    pub fn from_json(v: &serde_json::Value) -> Option<Case> {
        Some(Case {
            id: v.get("id")?.as_str()?.to_string(),
            origin: "replay",
            text: Arc::from(v.get("text")?.as_str()?),
            args: v
                .get("args")?
                .as_array()?
                .iter()
                .filter_map(|a| a.as_str().map(|s| s.to_string()))
                .collect(),
            witness: v.get("witness").and_then(|w| w.as_str()).map(|s| s.to_string()),
        })
    }
}

fn sorted_files(dir: &Path, ext: &str) -> Vec<std::path::PathBuf> {
    let mut v: Vec<_> = match std::fs::read_dir(dir) {
        Ok(rd) => rd
            .filter_map(|e| e.ok().map(|e| e.path()))
            .filter(|p| p.extension().and_then(|e| e.to_str()) == Some(ext))
            .collect(),
        Err(_) => Vec::new(),
    };
    v.sort();
    v
}

/// Load `*.simf` of a directory with their `stem*.args` / `stem*.wit` companions.
pub fn load_dir(dir: &Path, origin: &'static str, prefix: &str) -> Vec<Case> {
    let args_files = sorted_files(dir, "args");
    let wit_files = sorted_files(dir, "wit");
    let mut out = Vec::new();
    for p in sorted_files(dir, "simf") {
        let stem = p.file_stem().unwrap().to_string_lossy().to_string();
        let text = match std::fs::read_to_string(&p) {
            Ok(t) => t,
            Err(_) => continue,
        };
        let belongs = |q: &std::path::PathBuf| {
            let s = q.file_stem().unwrap().to_string_lossy().to_string();
            s == stem || s.starts_with(&format!("{stem}."))
        };
        let mut args: Vec<String> = args_files
            .iter()
            .filter(|q| belongs(q))
            .filter_map(|q| std::fs::read_to_string(q).ok())
            .collect();
        // every template is also tried without arguments (error path when it has parameters)
        args.push("{}".to_string());
        let witness = wit_files
            .iter()
            .filter(|q| belongs(q))
            .filter_map(|q| std::fs::read_to_string(q).ok())
            .next();
        out.push(Case {
            id: format!("{prefix}/{stem}"),
            origin,
            text: Arc::from(text),
            args,
            witness,
        });
    }
    out
}

pub struct CorpusSpec {
    pub seed: u64,
    pub generated: usize,
    pub mutated: usize,
    pub layout: usize,
}

pub fn build(spec: &CorpusSpec, repo: &Path, verif: &Path) -> Vec<Case> {
    let mut cases = load_dir(&repo.join("examples"), "example", "ex");
    cases.extend(load_dir(&verif.join("corpus"), "corpus", "co"));
    let base = cases.len();
    for i in 0..spec.generated {
        let s = mix(spec.seed ^ tag("gen") ^ (i as u64));
        let mut rng = Prng::new(s);
        cases.push(crate::gen::program(&mut rng, &format!("gen/{i}")));
    }
    // padded copies: the same programs in files that cross typical buffer sizes (8 KiB, 64 KiB,
    // 1 MiB); they are cases of their own, so the golden run decides what they compile to
    {
        let sizes = [8191usize, 8192, 8193, 65_537, (1 << 20) + 3];
        let n = cases.len();
        for (k, size) in sizes.iter().enumerate() {
            let s = mix(spec.seed ^ tag("pad") ^ (k as u64));
            let mut rng = Prng::new(s);
            let src = cases[rng.below(n)].clone();
            let mut text = src.text.to_string();
            let style = rng.below(3);
            while text.len() < *size {
                match style {
                    0 => text.push_str("\n// padding padding padding padding padding padding padding padding"),
                    1 => text.insert_str(0, "/* padding padding padding padding padding padding padding */\n"),
                    _ => text.push_str("\n                                                                "),
                }
            }
            cases.push(Case {
                id: format!("pad/{size}<{}", src.id),
                origin: "padded",
                text: Arc::from(text),
                args: src.args.clone(),
                witness: src.witness.clone(),
            });
        }
    }
    // layout variants of accepted and rejected programs
    {
        let n = cases.len();
        for i in 0..spec.layout {
            let s = mix(spec.seed ^ tag("layout") ^ (i as u64));
            let mut rng = Prng::new(s);
            let src = cases[rng.below(n)].clone();
            if src.text.len() > 100_000 {
                continue;
            }
            let text = crate::mutate::layout(&mut rng, &src.text);
            cases.push(Case {
                id: format!("lay/{i}<{}", src.id),
                origin: "layout",
                text: Arc::from(text),
                args: src.args.clone(),
                witness: src.witness.clone(),
            });
        }
    }
    let pool = cases.len();
    for i in 0..spec.mutated {
        let s = mix(spec.seed ^ tag("mut") ^ (i as u64));
        let mut rng = Prng::new(s);
        let src = &cases[rng.below(pool)];
        let text = crate::mutate::mutate(&mut rng, &src.text);
        cases.push(Case {
            id: format!("mut/{i}<{}", src.id),
            origin: "mutated",
            text: Arc::from(text),
            args: src.args.clone(),
            witness: src.witness.clone(),
        });
    }
    let _ = base;
    cases
}
