//! The workload: programs (with optional argument maps and a witness map).
//!
//! The corpus is a deterministic function of (VERIF_SEED, tier, files on disk read in sorted
//! order), so every process of one check enumerates the same list and cases can be named by index.

use crate::prng::{mix, tag, Prng};
use std::path::Path;
use std::sync::Arc;

#[derive(Clone, Debug)]
pub struct Case {
    pub id: String,
    pub origin: &'static str, // example | corpus | generated | mutated
    pub text: Arc<str>,
    /// argument maps as JSON texts; never empty ("{}" = no arguments)
    pub args: Vec<String>,
    /// a witness map as JSON text, when one is known
    pub witness: Option<String>,
    /// index of the corpus entry this one was derived from (its own index for originals):
    /// members of one family are near-identical texts (same spans, same names, other constants)
    pub family: usize,
}

impl Case {
    pub fn to_json(&self) -> serde_json::Value {
        serde_json::json!({"id": self.id, "origin": self.origin, "text": &*self.text, "args": self.args, "witness": self.witness, "family": self.family})
    }
    pub fn from_json(v: &serde_json::Value) -> Option<Case> {
        Some(Case {
            id: v.get("id")?.as_str()?.to_string(),
            origin: "replay",
            text: Arc::from(v.get("text")?.as_str()?),
            args: v
                .get("args")?
                .as_array()?
                .iter()
                .filter_map(|a| a.as_str().map(|s| s.to_string()))
                .collect(),
            witness: v.get("witness").and_then(|w| w.as_str()).map(|s| s.to_string()),
            family: v.get("family").and_then(|f| f.as_u64()).unwrap_or(0) as usize,
        })
    }
}

fn sorted_files(dir: &Path, ext: &str) -> Vec<std::path::PathBuf> {
    let mut v: Vec<_> = match std::fs::read_dir(dir) {
        Ok(rd) => rd
            .filter_map(|e| e.ok().map(|e| e.path()))
            .filter(|p| p.extension().and_then(|e| e.to_str()) == Some(ext))
            .collect(),
        Err(_) => Vec::new(),
    };
    v.sort();
    v
}

/// Load `*.simf` of a directory with their `stem*.args` / `stem*.wit` companions.
pub fn load_dir(dir: &Path, origin: &'static str, prefix: &str) -> Vec<Case> {
    let args_files = sorted_files(dir, "args");
    let wit_files = sorted_files(dir, "wit");
    let mut out = Vec::new();
    for p in sorted_files(dir, "simf") {
        let stem = p.file_stem().unwrap().to_string_lossy().to_string();
        let text = match std::fs::read_to_string(&p) {
            Ok(t) => t,
            Err(_) => continue,
        };
        let belongs = |q: &std::path::PathBuf| {
            let s = q.file_stem().unwrap().to_string_lossy().to_string();
            s == stem || s.starts_with(&format!("{stem}."))
        };
        let mut args: Vec<String> = args_files
            .iter()
            .filter(|q| belongs(q))
            .filter_map(|q| std::fs::read_to_string(q).ok())
            .collect();
        // every template is also tried without arguments (error path when it has parameters)
        args.push("{}".to_string());
        let witness = wit_files
            .iter()
            .filter(|q| belongs(q))
            .filter_map(|q| std::fs::read_to_string(q).ok())
            .next();
        out.push(Case {
            id: format!("{prefix}/{stem}"),
            origin,
            text: Arc::from(text),
            args,
            witness,
            family: usize::MAX,
        });
    }
    out
}

/// Sources of derived cases: deeply nested programs are not mutated (pest backtracks
/// exponentially on a *failing* parse of a deep nest; that is an input-size question, not C19's).
fn pick_source(rng: &mut Prng, cases: &[Case], n: usize) -> Case {
    for _ in 0..16 {
        let c = &cases[rng.below(n)];
        if !c.id.contains("/deep_") {
            return c.clone();
        }
    }
    cases[0].clone()
}

pub struct CorpusSpec {
    pub seed: u64,
    pub generated: usize,
    pub mutated: usize,
    pub layout: usize,
    pub literal: usize,
}

pub fn build(spec: &CorpusSpec, repo: &Path, verif: &Path) -> Vec<Case> {
    let mut cases = load_dir(&repo.join("examples"), "example", "ex");
    cases.extend(load_dir(&verif.join("corpus"), "corpus", "co"));
    let base = cases.len();
    for i in 0..spec.generated {
        let s = mix(spec.seed ^ tag("gen") ^ (i as u64));
        let mut rng = Prng::new(s);
        cases.push(crate::gen::program(&mut rng, &format!("gen/{i}")));
    }
    for (i, c) in cases.iter_mut().enumerate() {
        c.family = i; // originals: examples, hand-written corpus, generated
        // a superset of the first argument map: the same arguments plus entries the program does
        // not name, sorting before, between and after the real ones (see EXTRA_MARKER)
        if let Some(sup) = superset_args(&c.args[0]) {
            let at = c.args.len() - 1; // "{}" stays last
            c.args.insert(at, sup);
        }
    }
    // same-span literal variants: identical positions, one constant changed
    {
        let n = cases.len();
        for i in 0..spec.literal {
            let s = mix(spec.seed ^ tag("literal") ^ (i as u64));
            let mut rng = Prng::new(s);
            let src = pick_source(&mut rng, &cases, n);
            if let Some(text) = crate::mutate::same_span_literal(&mut rng, &src.text) {
                cases.push(Case {
                    id: format!("lit/{i}<{}", src.id),
                    origin: "literal",
                    text: Arc::from(text),
                    args: src.args.clone(),
                    witness: src.witness.clone(),
                    family: src.family,
                });
            }
        }
    }
    // padded copies: the same programs in files that cross typical buffer sizes (8 KiB, 64 KiB,
    // 1 MiB); they are cases of their own, so the golden run decides what they compile to
    {
        let sizes = [8191usize, 8192, 8193, 65_537, (1 << 20) + 3];
        let n = cases.len();
        for (k, size) in sizes.iter().enumerate() {
            let s = mix(spec.seed ^ tag("pad") ^ (k as u64));
            let mut rng = Prng::new(s);
            let src = pick_source(&mut rng, &cases, n);
            let mut text = src.text.to_string();
            let style = rng.below(3);
            while text.len() < *size {
                match style {
                    // comments are dense in 2-, 3- and 4-byte UTF-8 characters: a read boundary (buffer
                    // size, short read) at an arbitrary byte offset mostly falls inside a character
                    0 => text.push_str("\n// p\u{e4}dding \u{2713}\u{1f600}\u{e4}\u{2713}\u{1f600}\u{e4}\u{2713}\u{1f600}\u{e4}\u{2713}\u{1f600}\u{e4}\u{2713}\u{1f600}\u{e4}\u{2713}\u{1f600}\u{e4}\u{2713}\u{1f600}\u{e4}"),
                    1 => text.insert_str(0, "/*\u{2713}\u{1f600}\u{e4} \u{2713}\u{1f600}\u{e4}\u{2713}\u{1f600}\u{e4}\u{2713}\u{1f600}\u{e4}\u{2713}\u{1f600}\u{e4}\u{2713}\u{1f600}\u{e4}\u{2713}\u{1f600}\u{e4} */\n"),
                    _ => text.push_str("\n                                                                "),
                }
            }
            cases.push(Case {
                id: format!("pad/{size}<{}", src.id),
                origin: "padded",
                text: Arc::from(text),
                args: src.args.clone(),
                witness: src.witness.clone(),
                family: src.family,
            });
        }
    }
    // layout variants of accepted and rejected programs
    {
        let n = cases.len();
        for i in 0..spec.layout {
            let s = mix(spec.seed ^ tag("layout") ^ (i as u64));
            let mut rng = Prng::new(s);
            let src = pick_source(&mut rng, &cases, n);
            if src.text.len() > 100_000 {
                continue;
            }
            // every kind in turn, so that a small budget still covers all of them
            let text = crate::mutate::layout_kind(&mut rng, &src.text, i % crate::mutate::LAYOUT_KINDS);
            cases.push(Case {
                id: format!("lay/{i}<{}", src.id),
                origin: "layout",
                text: Arc::from(text),
                args: src.args.clone(),
                witness: src.witness.clone(),
                family: src.family,
            });
        }
    }
    let pool = cases.len();
    for i in 0..spec.mutated {
        let s = mix(spec.seed ^ tag("mut") ^ (i as u64));
        let mut rng = Prng::new(s);
        let src = &pick_source(&mut rng, &cases, pool);
        let text = crate::mutate::mutate(&mut rng, &src.text);
        cases.push(Case {
            id: format!("mut/{i}<{}", src.id),
            origin: "mutated",
            text: Arc::from(text),
            args: src.args.clone(),
            witness: src.witness.clone(),
            family: src.family,
        });
    }
    let _ = base;
    cases
}


/// Key that marks an argument map as "args[0] plus entries the program does not name".
pub const EXTRA_MARKER: &str = "AA_EXTRA_0";

fn superset_args(json: &str) -> Option<String> {
    let v: serde_json::Value = serde_json::from_str(json).ok()?;
    let obj = v.as_object()?;
    if obj.is_empty() || obj.contains_key(EXTRA_MARKER) {
        return None;
    }
    let keys: Vec<&String> = obj.keys().collect(); // sorted (serde_json map is ordered by key)
    // an extra entry has the type of the real entry next to it and a different value of that type
    // (one digit of the value text changed), so that a program that wrongly picks it up still
    // type-checks but compiles to other bytes
    let tweak = |e: &serde_json::Value| -> serde_json::Value {
        let mut e = e.clone();
        if let Some(v) = e.get("value").and_then(|v| v.as_str()).map(|s| s.to_string()) {
            let mut rng = Prng::new(crate::digest::fnv1a(v.as_bytes()));
            let nv = match v.as_str() {
                "true" => Some("false".to_string()),
                "false" => Some("true".to_string()),
                _ => crate::mutate::same_span_literal(&mut rng, &v),
            };
            if let Some(nv) = nv {
                e["value"] = serde_json::json!(nv);
            }
        }
        e
    };
    let first = obj.get(keys[0])?.clone();
    let second = obj.get(keys[1.min(keys.len() - 1)])?.clone();
    let last = obj.get(keys[keys.len() - 1])?.clone();
    let mut out = obj.clone();
    out.insert(EXTRA_MARKER.to_string(), tweak(&first));
    out.insert(format!("{}0", keys[0]), tweak(&second));
    out.insert("zz_extra_9".to_string(), tweak(&last));
    Some(serde_json::Value::Object(out).to_string())
}

impl Case {
    /// (index of a superset argument map, index of the exact map it extends)
    pub fn extra_pairs(&self) -> Vec<(usize, usize)> {
        self.args
            .iter()
            .enumerate()
            .filter(|(_, a)| a.contains(EXTRA_MARKER))
            .map(|(i, _)| (i, 0))
            .collect()
    }
}
