//! Leg C of C19: fresh processes under shim seeds, `simc` vs the library, transparent I/O faults.

use crate::child::{self, ChildResult, Io};
use crate::Opts;
use base64::Engine;
use simcore::corpus::{build, Case, CorpusSpec};
use simcore::digest::{fnv1a, h16};
use simcore::ops::Outcome;
use simcore::prng::{mix, tag, Prng};
use simcore::report::Report;
use simcore::{golden_from_json, sizes, Golden};
use std::path::{Path, PathBuf};

pub const TRANSPARENT_RATES: &str = "250,150,250,150,0,0,0";
pub const HOSTILE_RATES: &str = "100,50,100,50,150,150,150";

pub fn simc_path(o: &Opts) -> PathBuf {
    o.verif.join("build/simc-target/debug/simc")
}

pub fn load_golden(o: &Opts) -> Option<Golden> {
    let text = std::fs::read_to_string(o.out.join("golden.json")).ok()?;
    let v: serde_json::Value = serde_json::from_str(&text).ok()?;
    golden_from_json(v.get("table")?)
}

/// What C19 demands of one `simc` run, given the library's reference outcome.
/// Returns None when the run conforms, Some(class, detail) otherwise.
pub fn judge_simc(reference: &Outcome, r: &ChildResult) -> Option<(&'static str, String)> {
    // Stack exhaustion is a question of input size and thread stack size (the harness compiles on
    // a 512 MiB stack, `simc` on the 8 MiB main thread); C19 says nothing about it: not judged.
    if r.status.is_none() && String::from_utf8_lossy(&r.stderr).contains("overflowed its stack") {
        return None;
    }
    match reference {
        Outcome::Ok { bytes, .. } => {
            if r.status != Some(0) {
                return Some((
                    "EXIT-STATUS",
                    format!(
                        "library accepts, simc exit status {:?}, stderr: {}",
                        r.status,
                        String::from_utf8_lossy(&r.stderr).chars().take(300).collect::<String>()
                    ),
                ));
            }
            let expected = base64::engine::general_purpose::STANDARD.encode(bytes);
            let out = String::from_utf8_lossy(&r.stdout);
            // The statement: simc "prints the base64 of exactly the library's commit encoding".
            // Judged: that string must appear on stdout as one whole whitespace-delimited token.
            // Labels and any additional output are not judged (a changed label or an extra
            // informational line does not falsify the statement).
            let tokens: Vec<&str> = out.split_whitespace().collect();
            if !tokens.iter().any(|t| *t == expected) {
                return Some((
                    "STDOUT",
                    format!(
                        "the library's commit encoding {} is not on stdout; tokens found: {:?}",
                        short(&expected),
                        tokens.iter().filter(|t| !t.ends_with(':')).map(|t| short(t)).collect::<Vec<_>>()
                    ),
                ));
            }
            None
        }
        Outcome::Err(_) => {
            if r.status == Some(0) {
                return Some(("EXIT-STATUS", "library rejects, simc exit status 0".to_string()));
            }
            if r.status.is_none() {
                return Some(("EXIT-STATUS", "library rejects, simc killed by a signal".to_string()));
            }
            if r.stderr.iter().all(|b| b.is_ascii_whitespace()) {
                return Some(("STDERR", "library rejects, simc printed no message".to_string()));
            }
            None
        }
        Outcome::Panic(_) => None,
    }
}

fn short(s: &str) -> String {
    if s.len() > 48 {
        format!("{}..{}[{}]", &s[..20], &s[s.len() - 12..], s.len())
    } else {
        s.to_string()
    }
}

pub fn parse_libdump(r: &ChildResult) -> Option<Outcome> {
    let s = String::from_utf8_lossy(&r.stdout);
    let v: serde_json::Value = serde_json::from_str(s.trim()).ok()?;
    Outcome::from_json(&v)
}

pub struct Ctx {
    pub simc: PathBuf,
    pub me: PathBuf,
    pub dir: PathBuf,
}

pub fn write_case_files(dir: &Path, tagname: &str, case: &Case, ai: usize) -> (PathBuf, PathBuf) {
    let f = dir.join(format!("{tagname}.simf"));
    let a = dir.join(format!("{tagname}.args"));
    std::fs::write(&f, case.text.as_bytes()).expect("write case file");
    std::fs::write(&a, case.args[ai].as_bytes()).expect("write args file");
    (f, a)
}

/// How `simc` is invoked.  All styles name the same file and the same flag, so the result must be
/// the same.  Returns (argv, working directory).
pub fn simc_argv(file: &Path, debug: bool, style: u8) -> (Vec<String>, Option<PathBuf>) {
    let abs = file.to_string_lossy().to_string();
    let dir = file.parent().map(|p| p.to_path_buf());
    let name = file.file_name().map(|n| n.to_string_lossy().to_string()).unwrap_or_default();
    let d = |mut v: Vec<String>, first: bool| -> Vec<String> {
        if debug {
            if first {
                v.insert(0, "--debug".into());
            } else {
                v.push("--debug".into());
            }
        }
        v
    };
    match style {
        1 => (d(vec![abs], true), None),
        2 => (d(vec!["--".into(), abs], true), None),
        3 => (d(vec![name], false), dir),
        4 => (d(vec![format!("./{name}")], true), dir),
        5 => {
            // a file name that looks like an option, after the `--` separator
            let dash = format!("-{name}");
            if let Some(dd) = &dir {
                let _ = std::fs::copy(file, dd.join(&dash));
            }
            (d(vec!["--".into(), dash], true), dir)
        }
        _ => (d(vec![abs], false), None),
    }
}

#[allow(clippy::too_many_arguments)]
fn violation(
    rep: &mut Report,
    o: &Opts,
    class: &str,
    detail: &str,
    case: &Case,
    ai: usize,
    debug: bool,
    op: &str,
    hash_seed: u64,
    io_plan: &str,
    run: u64,
    expected: &Outcome,
    observed: serde_json::Value,
) {
    let scenario = format!("{op}({},{},debug={debug})", case.id, if ai + 1 == case.args.len() { "noargs".to_string() } else { format!("args{ai}") });
    let name = format!("C19-C-{}-{}.json", o.seed, run);
    let path = o.verif.join("replays").join(name);
    let doc = serde_json::json!({
        "property": "C19", "leg": "C", "class": class, "detail": detail, "scenario": scenario,
        "verif_seed": o.seed, "run": run, "op": op,
        "hash_seeds": [hash_seed], "io_plan": io_plan, "debug": debug, "args_index": ai,
        "program": case.to_json(),
        "expected": expected.to_json(), "observed": observed,
    });
    rep.violations.push(serde_json::json!({"class": class, "scenario": scenario, "replay": path, "doc": doc}));
}

pub fn run(o: &Opts) -> i32 {
    let golden = match load_golden(o) {
        Some(g) => g,
        None => {
            eprintln!("legC: golden.json missing or unreadable");
            return 2;
        }
    };
    let sz = sizes(&o.tier);
    let cases = build(&CorpusSpec { seed: o.seed, generated: sz.generated, mutated: sz.mutated, layout: sz.layout, literal: sz.literal }, &o.repo, &o.verif);
    let thorough = o.tier == "thorough";
    let k_seeds = if thorough { 6 } else { 2 };
    let fault_runs_per_case = if thorough { 4 } else { 1 };
    let dir = o.out.join(format!("legc-{}", o.shard));
    std::fs::create_dir_all(&dir).ok();
    let ctx = Ctx { simc: simc_path(o), me: std::env::current_exe().unwrap(), dir: dir.clone() };
    if !ctx.simc.exists() {
        eprintln!("legC: {} missing", ctx.simc.display());
        return 2;
    }
    let mut rep = Report::new(&o.out, "C", o.shard);
    let mut run_no: u64 = 0;
    for (ci, case) in cases.iter().enumerate() {
        if ci % o.shards != o.shard {
            continue;
        }
        let noargs = case.args.len() - 1;
        let s = mix(o.seed ^ tag("legC") ^ ci as u64);
        let mut rng = Prng::new(s);
        for debug in [false, true] {
            // ---- simc: no arguments
            let reference = match golden.get(&(ci, noargs, debug)) {
                Some(r) => r.clone(),
                None => {
                    eprintln!("legC: golden has no entry for case {ci}");
                    return 2;
                }
            };
            if let Outcome::Panic(_) = reference {
                rep.count("excluded_lib_panics", 1);
                continue;
            }
            // the path form is part of the configuration: plain, with a space, non-ASCII, long
            let stem = *rng.pick(&["case", "case with space", "c\u{e4}se-\u{3b1}", "case.v2.final", "a-rather-long-file-name-for-a-simfony-program-that-is-still-perfectly-legal-0123456789"]);
            let (file, _) = write_case_files(&dir, stem, case, noargs);
            for _k in 0..k_seeds {
                let hs = rng.next() | 1;
                let debug_first = rng.coin();
                run_no += 1;
                let rid = (ci as u64) << 16 | run_no;
                // stdout is a pipe or, every other run, a regular file
                let to_file = rng.coin();
                let io0 = Io { stdout_file: if to_file { Some(dir.join("stdout.txt")) } else { None }, ..Io::default() };
                rep.count(if to_file { "simc_stdout_regular_file" } else { "simc_stdout_pipe" }, 1);
                // thorough: one run in three uses the simc built with --features serde (no witness file)
                let alt = o.verif.join("build/simc-serde-target/debug/simc");
                let use_alt = thorough && alt.exists() && rng.below(3) == 0;
                if use_alt {
                    rep.count("simc_runs_with_serde_feature_build", 1);
                }
                let simc_bin = if use_alt { &alt } else { &ctx.simc };
                let style = rng.below(6) as u8;
                let _ = debug_first;
                let (argv, cwd) = simc_argv(&file, debug, style);
                let io0 = Io { cwd, ..io0 };
                rep.count(&format!("simc_argv_style_{style}"), 1);
                let r = match child::run(simc_bin, &argv, hs, &io0) {
                    Ok(r) => r,
                    Err(e) => {
                        eprintln!("legC: cannot run simc: {e}");
                        return 2;
                    }
                };
                rep.evaluations += 1;
                rep.count("simc_runs", 1);
                rep.count(&format!("ref_{}", reference.class()), 1);
                rep.event(&format!(
                    "C\t{ci}\tSimc({},d={debug},h={hs:x})\t-> status={:?} out={} err={}",
                    case.id,
                    r.status,
                    h16(fnv1a(&r.stdout)),
                    if r.stderr.is_empty() { 0 } else { 1 }
                ));
                rep.nontrivial.insert(fnv1a(format!("simc:{ci}:{debug}:{hs}").as_bytes()));
                if let Some((class, detail)) = judge_simc(&reference, &r) {
                    violation(&mut rep, o, class, &detail, case, noargs, debug, &format!("Simc:style={style}"), hs, "", rid, &reference,
                        serde_json::json!({"status": r.status, "stdout": String::from_utf8_lossy(&r.stdout), "stderr": String::from_utf8_lossy(&r.stderr)}));
                }
                rep.sample(serde_json::json!({"op": "Simc", "case": case.id, "debug": debug, "hash_seed": hs,
                    "status": r.status, "stdout": short(String::from_utf8_lossy(&r.stdout).trim())}));
            }
            // ---- simc under transparent faults: same exact oracle
            // padded files (large, dense in multi-byte characters) get four times the fault runs
            let fault_runs = if case.origin == "padded" { 4 * fault_runs_per_case } else { fault_runs_per_case };
            for _k in 0..fault_runs {
                let hs = rng.next() | 1;
                let ios = rng.next();
                run_no += 1;
                let rid = (ci as u64) << 16 | run_no;
                let log = dir.join("io.log");
                let io = Io { seed: Some((ios, TRANSPARENT_RATES.to_string())), plan: None, log: Some(log.clone()), stdout_file: None, cwd: None };
                let r = match child::run(&ctx.simc, &simc_argv(&file, debug, 0).0, hs, &io) {
                    Ok(r) => r,
                    Err(e) => {
                        eprintln!("legC: cannot run simc: {e}");
                        return 2;
                    }
                };
                let (plan, counts, nr, nw) = child::read_log(&log);
                rep.evaluations += 1;
                rep.count("simc_fault_runs", 1);
                for (k, v) in &counts {
                    rep.count(&format!("fault_{k}"), *v);
                }
                rep.count("intercepted_reads", nr);
                rep.count("intercepted_writes", nw);
                if counts.get("read_short").copied().unwrap_or(0) >= 2 {
                    rep.count("probe_short_read_split_file_more_than_once", 1);
                }
                if nw > 2 {
                    rep.count("probe_stdout_written_in_more_than_2_pieces", 1);
                }
                if !plan.is_empty() {
                    rep.nontrivial.insert(fnv1a(format!("simcio:{ci}:{debug}:{plan}").as_bytes()));
                    rep.set_add("fault_plans", fnv1a(plan.as_bytes()));
                }
                rep.event(&format!(
                    "C\t{ci}\tSimc({},d={debug},h={hs:x},io={ios:x})\tfaults[{plan}]\t-> status={:?} out={}",
                    case.id,
                    r.status,
                    h16(fnv1a(&r.stdout))
                ));
                if let Some((class, detail)) = judge_simc(&reference, &r) {
                    violation(&mut rep, o, class, &detail, case, noargs, debug, "SimcIo", hs, &plan, rid, &reference,
                        serde_json::json!({"status": r.status, "stdout": String::from_utf8_lossy(&r.stdout), "stderr": String::from_utf8_lossy(&r.stderr)}));
                }
                if rep.samples.len() < 3 && !plan.is_empty() {
                    rep.sample(serde_json::json!({"op": "SimcIo", "case": case.id, "debug": debug, "hash_seed": hs, "io_plan": plan, "status": r.status}));
                }
            }
            // ---- non-transparent faults: recorded, never judged
            if rng.below(4) == 0 {
                let hs = rng.next() | 1;
                let ios = rng.next();
                let log = dir.join("io.log");
                let io = Io { seed: Some((ios, HOSTILE_RATES.to_string())), plan: None, log: Some(log.clone()), stdout_file: None, cwd: None };
                if let Ok(r) = child::run(&ctx.simc, &simc_argv(&file, debug, 0).0, hs, &io) {
                    let (plan, counts, _, _) = child::read_log(&log);
                    rep.count("hostile_runs_recorded_not_judged", 1);
                    for (k, v) in &counts {
                        rep.count(&format!("hostile_fault_{k}"), *v);
                    }
                    rep.count(&format!("hostile_status_{}", r.status.map(|s| s.to_string()).unwrap_or("signal".into())), 1);
                    rep.event(&format!("C\t{ci}\tSimcHostile({},d={debug})\tfaults[{plan}]\t-> status={:?}", case.id, r.status));
                }
            }
            // ---- library in fresh processes, every argument map
            // quick: at most three argument maps per case and flag (first, last, one drawn)
            let pick_ai: Vec<usize> = if thorough || case.args.len() <= 3 {
                (0..case.args.len()).collect()
            } else {
                let mut v = vec![0, case.args.len() - 1, 1 + rng.below(case.args.len() - 2)];
                v.sort();
                v.dedup();
                v
            };
            for ai in pick_ai {
                let reference = match golden.get(&(ci, ai, debug)) {
                    Some(r) => r.clone(),
                    None => return 2,
                };
                if let Outcome::Panic(_) = reference {
                    rep.count("excluded_lib_panics", 1);
                    continue;
                }
                let (file, afile) = write_case_files(&dir, "lib", case, ai);
                let n = if thorough { 3 } else { 1 };
                for _ in 0..n {
                    let hs = rng.next() | 1;
                    run_no += 1;
                    let rid = (ci as u64) << 16 | run_no;
                    let argv = vec![
                        "libdump".to_string(),
                        file.to_string_lossy().to_string(),
                        afile.to_string_lossy().to_string(),
                        if debug { "1".into() } else { "0".into() },
                    ];
                    let r = match child::run(&ctx.me, &argv, hs, &Io::default()) {
                        Ok(r) => r,
                        Err(e) => {
                            eprintln!("legC: cannot run libdump: {e}");
                            return 2;
                        }
                    };
                    rep.evaluations += 1;
                    rep.count("libdump_runs", 1);
                    let obs = match parse_libdump(&r) {
                        Some(o) => o,
                        None => {
                            eprintln!("legC: libdump output unreadable: {:?} {}", r.status, String::from_utf8_lossy(&r.stderr));
                            return 2;
                        }
                    };
                    rep.event(&format!("C\t{ci}\tLibDump({},a={ai},d={debug},h={hs:x})\t-> {}", case.id, obs.key()));
                    rep.nontrivial.insert(fnv1a(format!("lib:{ci}:{ai}:{debug}:{hs}").as_bytes()));
                    if obs.key() != reference.key() {
                        violation(&mut rep, o, "MISMATCH", &format!("golden {} vs process {}", reference.key(), obs.key()),
                            case, ai, debug, "LibDump", hs, "", rid, &reference, obs.to_json());
                    }
                }
            }
        }
    }
    let _ = std::fs::remove_dir_all(&dir);
    let nviol = rep.violations.len();
    if rep.finish().is_err() {
        return 2;
    }
    if nviol > 0 {
        1
    } else {
        0
    }
}
