//! C15: print-parse of values, types and witness/argument maps under simulated hash seeds,
//! insertion histories and construction routes.

use crate::Opts;
use simcore::digest::fnv1a;
use simcore::ops::guarded;
use simcore::prng::{mix, tag, Prng};
use simcore::report::Report;
use simcore::{seam, valgen};
use simfony::parse::ParseFromStr;
use simfony::str::WitnessName;
use simfony::types::ResolvedType;
use simfony::value::Value;
use simfony::{Arguments, WitnessValues};
use std::collections::HashMap;

/// The reference model: the logical map, sorted by name.
pub struct Logical {
    pub entries: Vec<(String, ResolvedType, Value)>,
}

pub fn gen_logical(map_seed: u64, mask: u64) -> Logical {
    let mut rng = Prng::new(map_seed);
    let names = valgen::gen_names(&mut rng);
    let mut entries = Vec::new();
    // one map in four is "correlated": its entries share their bytes (same digits at different types)
    let correlated = rng.below(4) == 0;
    if correlated {
        let mut pool = [0u8; 32];
        match rng.below(4) {
            0 => {}
            1 => pool = [0xff; 32],
            _ => {
                for x in pool.iter_mut() {
                    *x = rng.below(256) as u8;
                }
            }
        }
        valgen::set_pool(Some(pool));
    }
    for (i, n) in names.into_iter().enumerate() {
        let mut r = rng.fork();
        let depth = r.below(4);
        let ty = if correlated { valgen::gen_type_correlated(&mut r) } else { valgen::gen_type(&mut r, depth) };
        let v = valgen::gen_value(&mut r, &ty);
        if mask & (1 << i) != 0 {
            entries.push((n, ty, v));
        }
    }
    valgen::set_pool(None);
    entries.sort_by(|a, b| a.0.cmp(&b.0));
    Logical { entries }
}

#[derive(Clone, Copy, Debug, PartialEq)]
pub enum Kind {
    Witness,
    Param,
}

impl Kind {
    fn module(self) -> &'static str {
        match self {
            Kind::Witness => "witness",
            Kind::Param => "param",
        }
    }
}

/// Either map type behind one interface.
#[derive(Clone, PartialEq, Debug)]
pub enum AnyMap {
    W(WitnessValues),
    P(Arguments),
}

impl AnyMap {
    fn from_hash(kind: Kind, m: HashMap<WitnessName, Value>) -> AnyMap {
        match kind {
            Kind::Witness => AnyMap::W(WitnessValues::from(m)),
            Kind::Param => AnyMap::P(Arguments::from(m)),
        }
    }
    fn print(&self) -> String {
        match self {
            AnyMap::W(m) => m.to_string(),
            AnyMap::P(m) => m.to_string(),
        }
    }
    fn parse_module(kind: Kind, s: &str) -> Result<AnyMap, String> {
        match kind {
            Kind::Witness => WitnessValues::parse_from_str(s).map(AnyMap::W).map_err(|e| e.to_string()),
            Kind::Param => Arguments::parse_from_str(s).map(AnyMap::P).map_err(|e| e.to_string()),
        }
    }
    fn to_json(&self) -> Result<String, String> {
        match self {
            AnyMap::W(m) => serde_json::to_string(m).map_err(|e| e.to_string()),
            AnyMap::P(m) => serde_json::to_string(m).map_err(|e| e.to_string()),
        }
    }
    fn parse_json(kind: Kind, s: &str) -> Result<AnyMap, String> {
        match kind {
            Kind::Witness => serde_json::from_str::<WitnessValues>(s).map(AnyMap::W).map_err(|e| e.to_string()),
            Kind::Param => serde_json::from_str::<Arguments>(s).map(AnyMap::P).map_err(|e| e.to_string()),
        }
    }
    fn iter_order(&self) -> Vec<String> {
        match self {
            AnyMap::W(m) => m.iter().map(|(n, _)| n.as_inner().to_string()).collect(),
            AnyMap::P(m) => m.iter().map(|(n, _)| n.as_inner().to_string()).collect(),
        }
    }
}

pub struct Viol {
    pub class: &'static str,
    pub detail: String,
    pub hash_seed: u64,
    pub route: String,
}

#[derive(Default)]
pub struct MapStats {
    pub prints: u64,
    /// hash orders the seam really produced in the epochs of this map (measured on a std HashMap
    /// of the harness, so it does not depend on how the implementation stores its maps)
    pub orders: std::collections::BTreeSet<u64>,
    /// iteration orders of the implementation's own maps, through the public iter() (informational)
    pub impl_orders: std::collections::BTreeSet<u64>,
    pub routes_unavailable: u64,
    pub dup_checks: u64,
    pub hash_epochs: u64,
    pub insertion_histories: u64,
    /// prints of a freshly built map made right after a different map of the same size was
    /// printed and dropped on the same thread (residue of the previous map must not show)
    pub prints_after_other_map: u64,
    pub permuted_texts: u64,
    pub value_roundtrips: u64,
    pub type_roundtrips: u64,
    pub json_roundtrips: u64,
    pub module_roundtrips: u64,
}

fn module_text(kind: Kind, entries: &[(String, String, String)], rng: &mut Prng, decorate: bool) -> String {
    // entries: (name, type text, value text) in the order they are to be written
    let mut s = String::new();
    let other = if kind == Kind::Witness { "param" } else { "witness" };
    if decorate && rng.coin() {
        s.push_str(&format!("mod {other} {{ const IGNORED: u8 = 1; }}\n"));
    }
    s.push_str(&format!("mod {} {{", kind.module()));
    for (n, t, v) in entries {
        if decorate && rng.below(4) == 0 {
            s.push_str("\n    // comment");
        }
        s.push_str(&format!("\n    const {n}: {t} = {v};"));
    }
    s.push_str("\n}");
    if decorate && rng.coin() {
        s.push_str(&format!("\nmod {other} {{}}"));
    }
    s
}

fn json_text(entries: &[(String, String, String)]) -> String {
    // hand-written so that key order (and duplicates) are under our control
    let parts: Vec<String> = entries
        .iter()
        .map(|(n, t, v)| {
            format!(
                "{}: {{\"value\": {}, \"type\": {}}}",
                serde_json::to_string(n).unwrap(),
                serde_json::to_string(v).unwrap(),
                serde_json::to_string(t).unwrap()
            )
        })
        .collect();
    format!("{{{}}}", parts.join(", "))
}

/// Check one logical map under `n_seeds` hash epochs.  Returns the first violation.
pub fn check_map(map_seed: u64, mask: u64, n_seeds: usize, only_seed: Option<u64>, stats: &mut MapStats) -> Option<Viol> {
    let logical = gen_logical(map_seed, mask);
    let mut ctl = Prng::new(mix(map_seed ^ 0xC15));
    let mut prints: Vec<(String, u64, String)> = Vec::new(); // (text, seed, route)
    let seeds: Vec<u64> = match only_seed {
        Some(s) => vec![s],
        None => (0..n_seeds).map(|_| ctl.next() | 1).collect(),
    };
    for hs in seeds {
        let mut rng = Prng::new(mix(map_seed ^ hs));
        let lref = &logical;
        let st = &mut *stats;
        let prints_ref = &mut prints;
        let v: Option<Viol> = seam::epoch(hs, move || {
            let logical = lref;
            let stats = st;
            let prints = prints_ref;
            let viol = |class: &'static str, detail: String, route: &str| Some(Viol { class, detail, hash_seed: hs, route: route.to_string() });
            stats.orders.insert(seam::order_fingerprint());
            stats.hash_epochs += 1;
            // ---- D4 on every value and type of the map
            let mut texts: Vec<(String, String, String)> = Vec::new();
            for (n, ty, v) in &logical.entries {
                let r = guarded(|| {
                    let vs = v.to_string();
                    let ts = ty.to_string();
                    let back = Value::parse_from_str(&vs, ty).map_err(|e| e.to_string());
                    let tback = ResolvedType::parse_from_str(&ts).map_err(|e| e.to_string());
                    (vs, ts, back, tback)
                });
                let (vs, ts, back, tback) = match r {
                    Ok(x) => x,
                    Err(p) => return viol("PANIC", format!("printing/parsing value of `{n}` panicked: {p}"), "value"),
                };
                stats.value_roundtrips += 1;
                stats.type_roundtrips += 1;
                match back {
                    Ok(b) if b == *v => {}
                    Ok(b) => return viol("D4-VALUE", format!("`{vs}` of type `{ts}` parsed back as `{b}`"), "value"),
                    Err(e) => return viol("D4-VALUE", format!("`{vs}` of type `{ts}` does not parse back: {}", e.lines().last().unwrap_or("")), "value"),
                }
                match tback {
                    Ok(b) if b == *ty => {}
                    Ok(b) => return viol("D4-TYPE", format!("type `{ts}` parsed back as `{b}`"), "type"),
                    Err(e) => return viol("D4-TYPE", format!("type `{ts}` does not parse back: {}", e.lines().last().unwrap_or("")), "type"),
                }
                if v.ty() != ty {
                    return viol("D4-TYPE", format!("value `{vs}` built for `{ts}` reports type `{}`", v.ty()), "type");
                }
                texts.push((n.clone(), ts, vs));
            }
            for kind in [Kind::Witness, Kind::Param] {
                // ---- construction routes
                let mut built: Vec<(String, AnyMap)> = Vec::new();
                let mut base_hash: HashMap<WitnessName, Value> = HashMap::new();
                // API route with several insertion histories
                for hist in 0..3 {
                    let mut order: Vec<usize> = (0..logical.entries.len()).collect();
                    rng.shuffle(&mut order);
                    let mut m: HashMap<WitnessName, Value> = match hist {
                        1 => HashMap::with_capacity(64),
                        _ => HashMap::new(),
                    };
                    for i in &order {
                        let (n, _, v) = &logical.entries[*i];
                        m.insert(WitnessName::from_str_unchecked(n), v.clone());
                    }
                    if hist == 2 {
                        // insert-remove-reinsert, plus transient foreign keys
                        for k in 0..8 {
                            m.insert(WitnessName::from_str_unchecked(&format!("TRANSIENT{k}")), Value::from(true));
                        }
                        for i in &order {
                            let (n, _, v) = &logical.entries[*i];
                            let key = WitnessName::from_str_unchecked(n);
                            m.remove(&key);
                            m.insert(key, v.clone());
                        }
                        for k in 0..8 {
                            m.remove(&WitnessName::from_str_unchecked(&format!("TRANSIENT{k}")));
                        }
                    }
                    stats.insertion_histories += 1;
                    if hist == 0 {
                        base_hash = m.clone();
                    }
                    built.push((format!("api/h{hist}"), AnyMap::from_hash(kind, m)));
                }
                let reference = built[0].1.clone();
                // module text with permuted assignments
                {
                    let mut perm = texts.clone();
                    rng.shuffle(&mut perm);
                    let text = module_text(kind, &perm, &mut rng, true);
                    stats.permuted_texts += 2;
                    match guarded(|| AnyMap::parse_module(kind, &text)) {
                        Err(p) => return viol("PANIC", format!("parsing a module text panicked: {p}"), "module/permuted"),
                        Ok(Ok(m)) if m == reference => built.push(("module/permuted".into(), m)),
                        _ => stats.routes_unavailable += 1,
                    }
                }
                // JSON with permuted keys
                {
                    let mut perm = texts.clone();
                    rng.shuffle(&mut perm);
                    let text = json_text(&perm);
                    match guarded(|| AnyMap::parse_json(kind, &text)) {
                        Err(p) => return viol("PANIC", format!("parsing a JSON text panicked: {p}"), "json/permuted"),
                        Ok(Ok(m)) if m == reference => built.push(("json/permuted".into(), m)),
                        _ => stats.routes_unavailable += 1,
                    }
                }
                // ---- D1, D2 on every built map
                // the built maps, then multi-step histories on this thread: a *different* map of the
                // same size is built, printed and dropped, and only then the map under test is built
                // afresh and printed (nothing of the dead map may survive in what is printed)
                let n_built = built.len();
                let n_after = if logical.entries.is_empty() { 0 } else { 3 };
                for idx in 0..n_built + n_after {
                    let fresh: AnyMap;
                    let route_s: String;
                    let (route, m): (&String, &AnyMap) = if idx < n_built {
                        (&built[idx].0, &built[idx].1)
                    } else {
                        let variant = idx - n_built;
                        let len = logical.entries.len();
                        let mut gh: HashMap<WitnessName, Value> = HashMap::new();
                        for (i, (n, _, v)) in logical.entries.iter().enumerate() {
                            match variant {
                                0 => gh.insert(WitnessName::from_str_unchecked(n), Value::from(i % 2 == 0)),
                                1 => gh.insert(WitnessName::from_str_unchecked(&format!("{n}_G")), v.clone()),
                                _ => gh.insert(WitnessName::from_str_unchecked(n), if len > 1 { logical.entries[(i + 1) % len].2.clone() } else { Value::from(false) }),
                            };
                        }
                        let ghost = AnyMap::from_hash(kind, gh);
                        let gp = match guarded(|| ghost.print()) {
                            Ok(p) => p,
                            Err(p) => return viol("PANIC", format!("printing a map panicked: {p}"), "api/other-map"),
                        };
                        match guarded(|| AnyMap::parse_module(kind, &gp)) {
                            Err(p) => return viol("PANIC", format!("parsing a printed module panicked: {p}"), "api/other-map"),
                            Ok(Ok(back)) if back == ghost => {}
                            Ok(Ok(_)) => return viol("D2-MODULE", format!("printed module parses back to a different map:\n{gp}"), "api/other-map"),
                            Ok(Err(e)) => return viol("D2-MODULE", format!("printed module does not parse back ({}):\n{gp}", e.lines().last().unwrap_or("")), "api/other-map"),
                        }
                        let copy = base_hash.clone();
                        drop(ghost);
                        fresh = AnyMap::from_hash(kind, copy);
                        stats.prints_after_other_map += 1;
                        route_s = format!("api/after-other-map{variant}");
                        (&route_s, &fresh)
                    };
                    let printed = match guarded(|| m.print()) {
                        Ok(p) => p,
                        Err(p) => return viol("PANIC", format!("printing a map panicked: {p}"), route),
                    };
                    stats.prints += 1;
                    stats.impl_orders.insert(fnv1a(format!("{kind:?}{:?}", m.iter_order()).as_bytes()));
                    // names strictly increasing
                    let names: Vec<&str> = printed
                        .lines()
                        .filter_map(|l| l.trim_start().strip_prefix("const "))
                        .filter_map(|l| l.split(':').next())
                        .collect();
                    if names.len() != logical.entries.len() {
                        return viol("D1-SORTED", format!("printed module has {} assignments, map has {}:\n{printed}", names.len(), logical.entries.len()), route);
                    }
                    if names.windows(2).any(|w| w[0] >= w[1]) {
                        return viol("D1-SORTED", format!("names are not printed in increasing order: {names:?}"), route);
                    }
                    prints.push((format!("{kind:?}\n{printed}"), hs, route.clone()));
                    // D2 module
                    match guarded(|| AnyMap::parse_module(kind, &printed)) {
                        Err(p) => return viol("PANIC", format!("parsing a printed module panicked: {p}"), route),
                        Ok(Ok(back)) if back == *m => stats.module_roundtrips += 1,
                        Ok(Ok(_)) => return viol("D2-MODULE", format!("printed module parses back to a different map:\n{printed}"), route),
                        Ok(Err(e)) => return viol("D2-MODULE", format!("printed module does not parse back ({}):\n{printed}", e.lines().last().unwrap_or("")), route),
                    }
                    // D2 JSON
                    match guarded(|| m.to_json().and_then(|j| AnyMap::parse_json(kind, &j).map(|b| (j, b)))) {
                        Err(p) => return viol("PANIC", format!("JSON round trip panicked: {p}"), route),
                        Ok(Ok((_, back))) if back == *m => stats.json_roundtrips += 1,
                        Ok(Ok((j, _))) => return viol("D2-JSON", format!("JSON parses back to a different map: {j}"), route),
                        Ok(Err(e)) => return viol("D2-JSON", format!("JSON does not parse back: {e}"), route),
                    }
                }
                // ---- D3 duplicates
                if !texts.is_empty() {
                    for variant in 0..6 {
                        let mut dup = texts.clone();
                        rng.shuffle(&mut dup);
                        let i = rng.below(dup.len());
                        let mut extra = dup[i].clone();
                        if variant == 1 {
                            // same name, different value and type
                            extra.1 = "bool".into();
                            extra.2 = "true".into();
                        }
                        let pos = match variant {
                            2 => (i + 1).min(dup.len()),           // adjacent
                            _ => rng.below(dup.len() + 1),         // anywhere
                        };
                        dup.insert(pos, extra.clone());
                        let mut name = dup[pos].0.clone();
                        match variant {
                            3 => {
                                // the same name three times
                                let p2 = rng.below(dup.len() + 1);
                                dup.insert(p2, extra.clone());
                            }
                            4 => {
                                // every name twice
                                let copy = texts.clone();
                                dup = texts.clone();
                                dup.extend(copy);
                                rng.shuffle(&mut dup);
                                name = dup[0].0.clone();
                            }
                            5 => {
                                // first and last position
                                dup = texts.clone();
                                rng.shuffle(&mut dup);
                                let first = dup[0].clone();
                                name = first.0.clone();
                                dup.push(first);
                            }
                            _ => {}
                        }
                        stats.dup_checks += 2;
                        let text = module_text(kind, &dup, &mut rng, false);
                        match guarded(|| AnyMap::parse_module(kind, &text)) {
                            Err(p) => return viol("PANIC", format!("parsing a module with a duplicate panicked: {p}"), "dup/module"),
                            Ok(Ok(_)) => return viol("D3-DUP-MODULE", format!("module assigning `{name}` twice was accepted:\n{text}"), "dup/module"),
                            Ok(Err(_)) => {}
                        }
                        let text = json_text(&dup);
                        match guarded(|| AnyMap::parse_json(kind, &text)) {
                            Err(p) => return viol("PANIC", format!("parsing JSON with a duplicate panicked: {p}"), "dup/json"),
                            Ok(Ok(_)) => return viol("D3-DUP-JSON", format!("JSON assigning `{name}` twice was accepted: {text}"), "dup/json"),
                            Ok(Err(_)) => {}
                        }
                    }
                }
            }
            None
        });
        if v.is_some() {
            return v;
        }
    }
    // ---- D1 determinism across every seed, history and route
    for kind in ["Witness", "Param"] {
        let of_kind: Vec<&(String, u64, String)> = prints.iter().filter(|p| p.0.starts_with(kind)).collect();
        if let Some(first) = of_kind.first() {
            for p in &of_kind[1..] {
                if p.0 != first.0 {
                    return Some(Viol {
                        class: "D1-DETERMINISM",
                        detail: format!(
                            "two prints of the same logical map differ:\n--- seed {:x} route {}\n{}\n--- seed {:x} route {}\n{}",
                            first.1, first.2, first.0, p.1, p.2, p.0
                        ),
                        hash_seed: p.1,
                        route: p.2.clone(),
                    });
                }
            }
        }
    }
    None
}

pub fn run(o: &Opts) -> i32 {
    if !seam::present() {
        eprintln!("c15: shim not preloaded");
        return 2;
    }
    let thorough = o.tier == "thorough";
    let maps: u64 = if thorough { 40_000 } else { 2_400 };
    let n_seeds = if thorough { 8 } else { 4 };
    let mut rep = Report::new(&o.out, "C15", o.shard);
    let mut total = MapStats::default();
    for i in 0..maps {
        if (i as usize) % o.shards != o.shard {
            continue;
        }
        let map_seed = mix(o.seed ^ tag("c15") ^ i);
        let mut stats = MapStats::default();
        let v = check_map(map_seed, u64::MAX, n_seeds, None, &mut stats);
        let logical = gen_logical(map_seed, u64::MAX);
        rep.evaluations += 1;
        rep.event(&format!(
            "C15\tmap {i}\tseed={map_seed:x}\tnames={:?}\tprints={}\torders={}\t-> {}",
            logical.entries.iter().map(|e| e.0.as_str()).collect::<Vec<_>>(),
            stats.prints,
            stats.orders.len(),
            v.as_ref().map(|v| v.class).unwrap_or("ok")
        ));
        // non-trivial: >= 2 names and the seam really applied >= 2 different hash orders
        if logical.entries.len() >= 2 && stats.orders.len() >= 2 {
            rep.nontrivial.insert(map_seed);
        }
        if rep.samples.len() < 3 && logical.entries.len() >= 2 {
            rep.sample(serde_json::json!({
                "map": i, "map_seed": map_seed.to_string(),
                "entries": logical.entries.iter().map(|(n, t, v)| serde_json::json!({"name": n, "type": t.to_string(), "value": v.to_string()})).collect::<Vec<_>>(),
                "prints": stats.prints, "distinct_hash_orders_applied": stats.orders.len(), "distinct_iteration_orders_of_the_maps": stats.impl_orders.len(),
            }));
        }
        total.prints += stats.prints;
        total.routes_unavailable += stats.routes_unavailable;
        total.dup_checks += stats.dup_checks;
        total.hash_epochs += stats.hash_epochs;
        total.insertion_histories += stats.insertion_histories;
        total.prints_after_other_map += stats.prints_after_other_map;
        total.permuted_texts += stats.permuted_texts;
        total.value_roundtrips += stats.value_roundtrips;
        total.type_roundtrips += stats.type_roundtrips;
        total.json_roundtrips += stats.json_roundtrips;
        total.module_roundtrips += stats.module_roundtrips;
        if let Some(v) = v {
            let path = o.verif.join("replays").join(format!("C15-{}-{}.json", o.seed, i));
            let scenario = format!("{} route={} names={}", v.class, v.route, logical.entries.len());
            let doc = serde_json::json!({
                "property": "C15", "leg": "C15", "class": v.class, "detail": v.detail, "scenario": scenario,
                "verif_seed": o.seed, "run": i, "shard": o.shard, "shards": o.shards, "map_seed": map_seed.to_string(), "mask": u64::MAX.to_string(),
                "hash_seed": v.hash_seed.to_string(), "n_seeds": n_seeds, "route": v.route,
                "entries": logical.entries.iter().map(|(n, t, v)| serde_json::json!({"name": n, "type": t.to_string(), "value": v.to_string()})).collect::<Vec<_>>(),
            });
            rep.violations.push(serde_json::json!({"class": v.class, "scenario": scenario, "replay": path, "doc": doc}));
        }
    }
    // ---- D4 sweep: values and types (exhaustive for small domains)
    {
        let small = crate::sweep::small_types();
        let random_items: usize = if thorough { 600_000 } else { 12_000 };
        let total_items = small.len() + 65 * 16 + crate::sweep::INT_ITEMS + random_items;
        let mut st = crate::sweep::SweepStats::default();
        let shard = o.shard;
        let shards = o.shards;
        let seed = o.seed;
        let quick_stride = if thorough { 1 } else { 3 };
        let mut lines: Vec<String> = Vec::new();
        let (viols, items): (Vec<(usize, crate::sweep::SweepViol)>, u64) = {
            let st = &mut st;
            let small = &small;
            let lines = &mut lines;
            seam::epoch(mix(o.seed ^ tag("sweep") ^ o.shard as u64) | 1, move || {
                let mut v = Vec::new();
                let mut n = 0u64;
                for i in 0..total_items {
                    if i % shards != shard {
                        continue;
                    }
                    // quick: every third small type (a different third for each seed)
                    if i < small.len() && (i + seed as usize) % quick_stride != 0 {
                        continue;
                    }
                    n += 1;
                    let r = crate::sweep::item(i, seed, small, st);
                    lines.push(format!("C15\tsweep {i}\t-> {}", r.as_ref().err().map(|e| e.class).unwrap_or("ok")));
                    if let Err(e) = r {
                        if v.len() < 3 {
                            v.push((i, e));
                        }
                    }
                }
                (v, n)
            })
        };
        rep.evaluations += items;
        rep.count("sweep_items", items);
        rep.count("sweep_types", st.types);
        rep.count("sweep_types_enumerated_exhaustively", st.types_exhaustive);
        rep.count("sweep_values", st.values);
        rep.count("sweep_values_from_exhaustive_enumeration", st.values_exhaustive);
        for l in &lines {
            rep.event(l);
        }
        for (i, v) in viols {
            let path = o.verif.join("replays").join(format!("C15-sweep-{}-{}.json", o.seed, i));
            let scenario = format!("{} sweep type={}", v.class, v.ty);
            let doc = serde_json::json!({
                "property": "C15", "leg": "C15", "kind": "sweep", "class": v.class, "detail": v.detail, "scenario": scenario,
                "verif_seed": o.seed, "item": i, "type": v.ty, "value": v.value,
            });
            rep.violations.push(serde_json::json!({"class": v.class, "scenario": scenario, "replay": path, "doc": doc}));
        }
    }
    rep.count("prints", total.prints);
    rep.count("routes_unavailable_not_judged", total.routes_unavailable);
    rep.count("duplicate_texts_checked", total.dup_checks);
    rep.count("fault_hash_seed_changes_epochs", total.hash_epochs);
    rep.count("fault_insertion_histories", total.insertion_histories);
    rep.count("fault_prints_after_a_different_dropped_map", total.prints_after_other_map);
    rep.count("fault_permuted_module_and_json_texts", total.permuted_texts);
    rep.count("value_roundtrips", total.value_roundtrips);
    rep.count("type_roundtrips", total.type_roundtrips);
    rep.count("json_roundtrips", total.json_roundtrips);
    rep.count("module_roundtrips", total.module_roundtrips);
    let nviol = rep.violations.len();
    if rep.finish().is_err() {
        return 2;
    }
    if nviol > 0 {
        1
    } else {
        0
    }
}
