//! simreal: legs A and C of C19, C15, golden reference, libdump - against the real dependency.
mod c15;
mod child;
mod golden;
mod lega;
mod legc;
mod libdump;
mod replay;
mod sweep;

use std::path::PathBuf;

pub struct Opts {
    pub seed: u64,
    pub tier: String,
    pub shard: usize,
    pub shards: usize,
    pub out: PathBuf,
    pub repo: PathBuf,
    pub verif: PathBuf,
    pub rest: Vec<String>,
}

fn parse_opts(args: &[String]) -> Opts {
    let mut o = Opts {
        seed: simcore::DEFAULT_SEED,
        tier: "quick".into(),
        shard: 0,
        shards: 1,
        out: PathBuf::from("/verif/build/out"),
        repo: PathBuf::from("/repo"),
        verif: PathBuf::from("/verif"),
        rest: Vec::new(),
    };
    let mut i = 0;
    while i < args.len() {
        let a = &args[i];
        let mut val = || {
            i += 1;
            args.get(i).cloned().unwrap_or_else(|| {
                eprintln!("missing value for {a}");
                std::process::exit(2)
            })
        };
        match a.as_str() {
            "--seed" => o.seed = val().parse().unwrap_or_else(|_| std::process::exit(2)),
            "--tier" => o.tier = val(),
            "--shard" => {
                let v = val();
                let (a, b) = v.split_once('/').unwrap_or_else(|| std::process::exit(2));
                o.shard = a.parse().unwrap();
                o.shards = b.parse().unwrap();
            }
            "--out" => o.out = PathBuf::from(val()),
            "--repo" => o.repo = PathBuf::from(val()),
            "--verif" => o.verif = PathBuf::from(val()),
            _ => o.rest.push(a.clone()),
        }
        i += 1;
    }
    o
}

fn main() {
    let args: Vec<String> = std::env::args().skip(1).collect();
    if args.is_empty() {
        eprintln!("usage: simreal <golden|legA|legC|c15|libdump|replay> [options]");
        std::process::exit(2);
    }
    let opts = parse_opts(&args[1..]);
    simcore::ops::quiet_panics();
    let code = match args[0].as_str() {
        "golden" => golden::run(&opts),
        "legA" => lega::run(&opts),
        "legA-exec" => lega::exec_main(&opts),
        "legC" => legc::run(&opts),
        "libdump" => libdump::run(&opts),
        "c15" => c15::run(&opts),
        "replay" => replay::run(&opts, false),
        "minimise" => replay::run(&opts, true),
        other => {
            eprintln!("unknown subcommand {other}");
            2
        }
    };
    std::process::exit(code);
}
