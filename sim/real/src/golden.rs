//! Golden process: single thread, hash seed 0, no faults.  Fills the reference table
//! ref[(case, args, debug)] -> Ok{bytes, cmr} | Err | Panic for the whole corpus of this check.

use crate::Opts;
use simcore::corpus::{build, CorpusSpec};
use simcore::{golden_to_json, ops, seam, sizes, Golden};

pub fn run(o: &Opts) -> i32 {
    if !seam::present() {
        eprintln!("golden: shim not preloaded");
        return 2;
    }
    let sz = sizes(&o.tier);
    let cases = build(
        &CorpusSpec { seed: o.seed, generated: sz.generated, mutated: sz.mutated, layout: sz.layout },
        &o.repo,
        &o.verif,
    );
    let golden: Golden = seam::epoch(0, || {
        let mut g = Golden::new();
        for (ci, case) in cases.iter().enumerate() {
            for (ai, args) in case.args.iter().enumerate() {
                for debug in [false, true] {
                    let (outcome, _) = ops::compile_direct(&case.text, args, debug);
                    g.insert((ci, ai, debug), outcome);
                }
            }
        }
        g
    });
    let mut n = [0usize; 3];
    let mut per_origin: std::collections::BTreeMap<&str, [usize; 3]> = Default::default();
    for ((ci, _, _), out) in &golden {
        let k = match out {
            ops::Outcome::Ok { .. } => 0,
            ops::Outcome::Err(_) => 1,
            ops::Outcome::Panic(_) => 2,
        };
        n[k] += 1;
        per_origin.entry(cases[*ci].origin).or_default()[k] += 1;
    }
    let doc = serde_json::json!({
        "seed": o.seed, "tier": o.tier, "cases": cases.len(),
        "ok": n[0], "err": n[1], "panic": n[2],
        "per_origin": per_origin.iter().map(|(k, v)| (k.to_string(), serde_json::json!(v))).collect::<serde_json::Map<_, _>>(),
        "table": golden_to_json(&golden),
        "case_ids": cases.iter().map(|c| c.id.clone()).collect::<Vec<_>>(),
    });
    std::fs::create_dir_all(&o.out).ok();
    let path = o.out.join("golden.json");
    if std::fs::write(&path, serde_json::to_string(&doc).unwrap()).is_err() {
        eprintln!("golden: cannot write {}", path.display());
        return 2;
    }
    println!(
        "golden: cases={} entries={} ok={} err={} panic={} per_origin={:?}",
        cases.len(),
        golden.len(),
        n[0],
        n[1],
        n[2],
        per_origin
    );
    if o.rest.iter().any(|a| a == "--show-errors") {
        for ((ci, ai, d), out) in &golden {
            if let ops::Outcome::Err(e) | ops::Outcome::Panic(e) = out {
                if cases[*ci].origin == "generated" && !*d && *ai == 0 {
                    println!("--- {} : {}\n{}", cases[*ci].id, out.class(), e);
                }
            }
        }
    }
    0
}
