//! Golden process: single thread, hash seed 0, no faults.  Fills the reference table
//! ref[(case, args, debug)] -> Ok{bytes, cmr} | Err | Panic for the whole corpus of this check.

use crate::Opts;
use simcore::corpus::{build, CorpusSpec};
use simcore::{golden_to_json, ops, seam, sizes, Golden};

pub fn run(o: &Opts) -> i32 {
    if !seam::present() {
        eprintln!("golden: shim not preloaded");
        return 2;
    }
    let sz = sizes(&o.tier);
    let cases = build(
        &CorpusSpec { seed: o.seed, generated: sz.generated, mutated: sz.mutated, layout: sz.layout, literal: sz.literal },
        &o.repo,
        &o.verif,
    );
    let (shard, shards) = (o.shard, o.shards);
    let golden: Golden = seam::epoch(0, || {
        let mut g = Golden::new();
        for (ci, case) in cases.iter().enumerate() {
            if ci % shards != shard {
                continue;
            }
            for (ai, args) in case.args.iter().enumerate() {
                for debug in [false, true] {
                    let (outcome, _) = ops::compile_direct(&case.text, args, debug);
                    g.insert((ci, ai, debug), outcome);
                }
            }
        }
        g
    });
    let mut n = [0usize; 3];
    let mut per_origin: std::collections::BTreeMap<&str, [usize; 3]> = Default::default();
    for ((ci, _, _), out) in &golden {
        let k = match out {
            ops::Outcome::Ok { .. } => 0,
            ops::Outcome::Err(_) => 1,
            ops::Outcome::Panic(_) => 2,
        };
        n[k] += 1;
        per_origin.entry(cases[*ci].origin).or_default()[k] += 1;
    }
    // Arguments that a program does not name are not arguments of the program: where both the
    // exact map and its superset compile, they must compile to the same bytes (errors not judged).
    let mut extra_violations = Vec::new();
    let mut extra_pairs_checked = 0u64;
    for (ci, case) in cases.iter().enumerate() {
        if ci % shards != shard {
            continue;
        }
        for (sup, exact) in case.extra_pairs() {
            for debug in [false, true] {
                if let (Some(a @ ops::Outcome::Ok { .. }), Some(b @ ops::Outcome::Ok { .. })) = (golden.get(&(ci, exact, debug)), golden.get(&(ci, sup, debug))) {
                    extra_pairs_checked += 1;
                    if a.key() != b.key() {
                        let path = o.verif.join("replays").join(format!("C19-G-{}-{}-{}.json", o.seed, ci, debug as u8));
                        let scenario = format!("ExtraArgs({},debug={debug})", case.id);
                        let doc = serde_json::json!({
                            "property": "C19", "leg": "G", "class": "MISMATCH(ExtraArgs)", "scenario": scenario,
                            "detail": format!("{}: with the exact argument map {} but with unused extra entries {}", case.id, a.key(), b.key()),
                            "verif_seed": o.seed, "debug": debug, "exact_index": exact, "superset_index": sup,
                            "program": case.to_json(), "expected": a.to_json(), "observed": b.to_json(),
                        });
                        if let Some(dir) = path.parent() {
                            std::fs::create_dir_all(dir).ok();
                        }
                        std::fs::write(&path, serde_json::to_string_pretty(&doc).unwrap()).ok();
                        extra_violations.push(serde_json::json!({"class": "MISMATCH(ExtraArgs)", "scenario": scenario, "replay": path, "doc": doc}));
                    }
                }
            }
        }
    }
    let doc = serde_json::json!({
        "violations": extra_violations, "extra_argument_pairs_checked": extra_pairs_checked,
        "seed": o.seed, "tier": o.tier, "cases": cases.len(),
        "ok": n[0], "err": n[1], "panic": n[2],
        "per_origin": per_origin.iter().map(|(k, v)| (k.to_string(), serde_json::json!(v))).collect::<serde_json::Map<_, _>>(),
        "table": golden_to_json(&golden),
        "case_ids": cases.iter().map(|c| c.id.clone()).collect::<Vec<_>>(),
    });
    std::fs::create_dir_all(&o.out).ok();
    let path = if shards > 1 { o.out.join(format!("golden-{shard}.json")) } else { o.out.join("golden.json") };
    if std::fs::write(&path, serde_json::to_string(&doc).unwrap()).is_err() {
        eprintln!("golden: cannot write {}", path.display());
        return 2;
    }
    println!(
        "golden: cases={} entries={} ok={} err={} panic={} per_origin={:?}",
        cases.len(),
        golden.len(),
        n[0],
        n[1],
        n[2],
        per_origin
    );
    if o.rest.iter().any(|a| a == "--show-errors") {
        for ((ci, ai, d), out) in &golden {
            if let ops::Outcome::Err(e) | ops::Outcome::Panic(e) = out {
                if cases[*ci].origin == "generated" && !*d && *ai == 0 {
                    println!("--- {} : {}\n{}", cases[*ci].id, out.class(), e);
                }
            }
        }
    }
    0
}
