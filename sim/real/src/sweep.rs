//! C15 workload D4: value and type print-parse round trips.  Exhaustive for small domains
//! (every value of every enumerated type with at most 4096 inhabitants), sampled otherwise,
//! plus byte arrays of every length 0..64 in every nesting position.

use simcore::prng::Prng;
use simfony::num::NonZeroPow2Usize;
use simfony::parse::ParseFromStr;
use simfony::types::{ResolvedType, TypeConstructible, TypeDeconstructible, UIntType};
use simfony::value::{UIntValue, Value, ValueConstructible};

const LIMIT: usize = 4096;
/// one item per (width, bit): 1 + 2 + 4 + ... + 256
pub const INT_ITEMS: usize = 511;

/// Number of inhabitants, saturating at LIMIT + 1.
fn domain(ty: &ResolvedType) -> usize {
    let cap = |x: usize| x.min(LIMIT + 1);
    if ty.is_boolean() {
        return 2;
    }
    if let Some(u) = ty.as_integer() {
        return match u {
            UIntType::U1 => 2,
            UIntType::U2 => 4,
            UIntType::U4 => 16,
            UIntType::U8 => 256,
            _ => LIMIT + 1,
        };
    }
    if let Some((l, r)) = ty.as_either() {
        return cap(domain(l) + domain(r));
    }
    if let Some(i) = ty.as_option() {
        return cap(1 + domain(i));
    }
    if let Some(es) = ty.as_tuple() {
        let mut n = 1usize;
        for e in es {
            n = cap(n.saturating_mul(domain(e)));
        }
        return n;
    }
    if let Some((e, k)) = ty.as_array() {
        let d = domain(e);
        let mut n = 1usize;
        for _ in 0..k {
            n = cap(n.saturating_mul(d));
        }
        return n;
    }
    if let Some((e, b)) = ty.as_list() {
        let d = domain(e);
        let mut total = 0usize;
        let mut pow = 1usize;
        for _ in 0..b.get() {
            total = cap(total + pow);
            pow = cap(pow.saturating_mul(d));
        }
        return total;
    }
    LIMIT + 1
}

/// All inhabitants of a type whose domain is at most LIMIT.
fn all_values(ty: &ResolvedType) -> Vec<Value> {
    if ty.is_boolean() {
        return vec![Value::from(false), Value::from(true)];
    }
    if let Some(u) = ty.as_integer() {
        return match u {
            UIntType::U1 => (0..2).map(|i| Value::from(UIntValue::u1(i).unwrap())).collect(),
            UIntType::U2 => (0..4).map(|i| Value::from(UIntValue::u2(i).unwrap())).collect(),
            UIntType::U4 => (0..16).map(|i| Value::from(UIntValue::u4(i).unwrap())).collect(),
            UIntType::U8 => (0..=255u8).map(|i| Value::from(UIntValue::U8(i))).collect(),
            _ => unreachable!(),
        };
    }
    if let Some((l, r)) = ty.as_either() {
        let mut v: Vec<Value> = all_values(l).into_iter().map(|x| Value::left(x, r.clone())).collect();
        v.extend(all_values(r).into_iter().map(|x| Value::right(l.clone(), x)));
        return v;
    }
    if let Some(i) = ty.as_option() {
        let mut v = vec![Value::none(i.clone())];
        v.extend(all_values(i).into_iter().map(Value::some));
        return v;
    }
    let product = |parts: Vec<Vec<Value>>| -> Vec<Vec<Value>> {
        let mut acc: Vec<Vec<Value>> = vec![vec![]];
        for p in parts {
            let mut next = Vec::new();
            for a in &acc {
                for x in &p {
                    let mut b = a.clone();
                    b.push(x.clone());
                    next.push(b);
                }
            }
            acc = next;
        }
        acc
    };
    if let Some(es) = ty.as_tuple() {
        let parts: Vec<Vec<Value>> = es.iter().map(|e| all_values(e)).collect();
        return product(parts).into_iter().map(Value::tuple).collect();
    }
    if let Some((e, k)) = ty.as_array() {
        let ev = all_values(e);
        return product((0..k).map(|_| ev.clone()).collect()).into_iter().map(|xs| Value::array(xs, e.clone())).collect();
    }
    if let Some((e, b)) = ty.as_list() {
        let ev = all_values(e);
        let mut out = Vec::new();
        for n in 0..b.get() {
            for xs in product((0..n).map(|_| ev.clone()).collect()) {
                out.push(Value::list(xs, e.clone(), b));
            }
        }
        return out;
    }
    unreachable!()
}

/// The enumerated small-type universe (depth <= 2 over small bases).
pub fn small_types() -> Vec<ResolvedType> {
    let base: Vec<ResolvedType> = vec![
        ResolvedType::unit(),
        ResolvedType::boolean(),
        ResolvedType::from(UIntType::U1),
        ResolvedType::from(UIntType::U2),
        ResolvedType::from(UIntType::U4),
    ];
    let two = NonZeroPow2Usize::new(2).unwrap();
    let four = NonZeroPow2Usize::new(4).unwrap();
    let mut d1: Vec<ResolvedType> = Vec::new();
    for a in &base {
        d1.push(ResolvedType::option(a.clone()));
        d1.push(ResolvedType::tuple([a.clone()]));
        for k in 0..4 {
            d1.push(ResolvedType::array(a.clone(), k));
        }
        d1.push(ResolvedType::list(a.clone(), two));
        d1.push(ResolvedType::list(a.clone(), four));
        for b in &base {
            d1.push(ResolvedType::either(a.clone(), b.clone()));
            d1.push(ResolvedType::tuple([a.clone(), b.clone()]));
        }
    }
    d1.push(ResolvedType::tuple([base[1].clone(), base[2].clone(), base[3].clone()]));
    d1.push(ResolvedType::tuple([base[0].clone(), base[0].clone(), base[0].clone(), base[1].clone()]));
    // byte-ish arrays in the small universe
    d1.push(ResolvedType::byte_array(0));
    d1.push(ResolvedType::byte_array(1));
    let small_base = [base[0].clone(), base[1].clone(), base[3].clone()];
    let mut d2: Vec<ResolvedType> = Vec::new();
    for t in &d1 {
        d2.push(ResolvedType::option(t.clone()));
        d2.push(ResolvedType::tuple([t.clone()]));
        d2.push(ResolvedType::array(t.clone(), 0));
        d2.push(ResolvedType::array(t.clone(), 1));
        d2.push(ResolvedType::array(t.clone(), 2));
        d2.push(ResolvedType::list(t.clone(), two));
        for b in &small_base {
            d2.push(ResolvedType::either(t.clone(), b.clone()));
            d2.push(ResolvedType::either(b.clone(), t.clone()));
            d2.push(ResolvedType::tuple([t.clone(), b.clone()]));
        }
    }
    let mut all = base;
    all.extend(d1);
    all.extend(d2);
    all
}

/// Types that put byte arrays of one length in every nesting position.
pub fn byte_types(len: usize) -> Vec<ResolvedType> {
    let b = ResolvedType::byte_array(len);
    let four = NonZeroPow2Usize::new(4).unwrap();
    vec![
        b.clone(),
        ResolvedType::option(b.clone()),
        ResolvedType::tuple([b.clone()]),
        ResolvedType::tuple([b.clone(), ResolvedType::from(UIntType::U8)]),
        ResolvedType::tuple([ResolvedType::from(UIntType::U8), b.clone(), b.clone()]),
        ResolvedType::array(b.clone(), 0),
        ResolvedType::array(b.clone(), 1),
        ResolvedType::array(b.clone(), 3),
        ResolvedType::array(ResolvedType::array(b.clone(), 2), 2),
        ResolvedType::list(b.clone(), four),
        ResolvedType::either(b.clone(), ResolvedType::byte_array(len / 2)),
        ResolvedType::either(ResolvedType::from(UIntType::U16), b.clone()),
        ResolvedType::option(ResolvedType::tuple([b.clone(), ResolvedType::option(b.clone())])),
        ResolvedType::list(ResolvedType::option(b.clone()), four),
        ResolvedType::array(ResolvedType::from(UIntType::U16), len.min(5)),
        ResolvedType::array(ResolvedType::from(UIntType::U4), len.min(5)),
    ]
}

pub struct SweepViol {
    pub class: &'static str,
    pub detail: String,
    pub ty: String,
    pub value: String,
}

/// One round trip; Err = violation.
pub fn roundtrip(ty: &ResolvedType, v: &Value) -> Result<(), SweepViol> {
    let r = simcore::ops::guarded(|| {
        let vs = v.to_string();
        let ts = ty.to_string();
        let back = Value::parse_from_str(&vs, ty).map_err(|e| e.to_string());
        (vs, ts, back)
    });
    let (vs, ts, back) = match r {
        Ok(x) => x,
        Err(p) => return Err(SweepViol { class: "PANIC", detail: format!("print/parse panicked: {p}"), ty: ty.to_string(), value: String::new() }),
    };
    match back {
        Ok(b) if b == *v => Ok(()),
        Ok(b) => Err(SweepViol { class: "D4-VALUE", detail: format!("`{vs}` of type `{ts}` parsed back as `{b}`"), ty: ts, value: vs }),
        Err(e) => Err(SweepViol {
            class: "D4-VALUE",
            detail: format!("`{vs}` of type `{ts}` does not parse back: {}", e.lines().last().unwrap_or("")),
            ty: ts,
            value: vs,
        }),
    }
}

pub fn type_roundtrip(ty: &ResolvedType) -> Result<(), SweepViol> {
    let ts = ty.to_string();
    match simcore::ops::guarded(|| ResolvedType::parse_from_str(&ts).map_err(|e| e.to_string())) {
        Err(p) => Err(SweepViol { class: "PANIC", detail: format!("type print/parse panicked: {p}"), ty: ts, value: String::new() }),
        Ok(Ok(b)) if b == *ty => Ok(()),
        Ok(Ok(b)) => Err(SweepViol { class: "D4-TYPE", detail: format!("type `{ts}` parsed back as `{b}`"), ty: ts, value: String::new() }),
        Ok(Err(e)) => Err(SweepViol { class: "D4-TYPE", detail: format!("type `{ts}` does not parse back: {}", e.lines().last().unwrap_or("")), ty: ts, value: String::new() }),
    }
}

#[derive(Default)]
pub struct SweepStats {
    pub types: u64,
    pub types_exhaustive: u64,
    pub values: u64,
    pub values_exhaustive: u64,
}

/// Item `i` of the sweep (items are independent so that they can be sharded and replayed):
/// i < small.len(): small type i (exhaustive when the domain allows, else 64 samples);
/// then 65 * 16 byte-array items; then random (type, value) items.
pub fn item(i: usize, seed: u64, small: &[ResolvedType], stats: &mut SweepStats) -> Result<(), SweepViol> {
    let mut rng = Prng::new(simcore::prng::mix(seed ^ (i as u64).wrapping_mul(0x9E37)));
    if i < small.len() {
        let ty = &small[i];
        stats.types += 1;
        type_roundtrip(ty)?;
        if domain(ty) <= LIMIT {
            stats.types_exhaustive += 1;
            for v in all_values(ty) {
                stats.values += 1;
                stats.values_exhaustive += 1;
                roundtrip(ty, &v)?;
            }
        } else {
            for _ in 0..64 {
                let v = simcore::valgen::gen_value(&mut rng, ty);
                stats.values += 1;
                roundtrip(ty, &v)?;
            }
        }
        return Ok(());
    }
    let j = i - small.len();
    if j < 65 * 16 {
        let len = j / 16;
        let ty = &byte_types(len)[j % 16];
        stats.types += 1;
        type_roundtrip(ty)?;
        for _ in 0..6 {
            let v = simcore::valgen::gen_value(&mut rng, ty);
            stats.values += 1;
            roundtrip(ty, &v)?;
        }
        return Ok(());
    }
    let j = j - 65 * 16;
    if j < INT_ITEMS {
        // systematic integers: for every width and every bit k: 2^k, 2^k - 1, 2^k + 1, !(2^k),
        // bare and nested
        let widths = [1u32, 2, 4, 8, 16, 32, 64, 128, 256];
        let mut rest = j as u32;
        let mut w = 1u32;
        for x in widths {
            if rest < x {
                w = x;
                break;
            }
            rest -= x;
        }
        let k = rest;
        let ut = match w {
            1 => UIntType::U1,
            2 => UIntType::U2,
            4 => UIntType::U4,
            8 => UIntType::U8,
            16 => UIntType::U16,
            32 => UIntType::U32,
            64 => UIntType::U64,
            128 => UIntType::U128,
            _ => UIntType::U256,
        };
        let ty = ResolvedType::from(ut);
        stats.types += 1;
        type_roundtrip(&ty)?;
        let nbytes = ((w + 7) / 8) as usize;
        let mk = |f: &dyn Fn(&mut [u8; 32])| -> Value {
            let mut b = [0u8; 32];
            f(&mut b);
            for x in b[..32 - nbytes].iter_mut() {
                *x = 0;
            }
            if w < 8 {
                b[31] &= (1u8 << w) - 1;
            }
            let be = |n: usize| -> u128 { b[32 - n..].iter().fold(0u128, |a, x| (a << 8) | *x as u128) };
            Value::from(match ut {
                UIntType::U1 => UIntValue::u1(b[31]).unwrap(),
                UIntType::U2 => UIntValue::u2(b[31]).unwrap(),
                UIntType::U4 => UIntValue::u4(b[31]).unwrap(),
                UIntType::U8 => UIntValue::U8(b[31]),
                UIntType::U16 => UIntValue::U16(be(2) as u16),
                UIntType::U32 => UIntValue::U32(be(4) as u32),
                UIntType::U64 => UIntValue::U64(be(8) as u64),
                UIntType::U128 => UIntValue::U128(be(16)),
                UIntType::U256 => UIntValue::U256(simfony::num::U256::from_byte_array(b)),
            })
        };
        let bit = |b: &mut [u8; 32], i: u32| b[31 - (i / 8) as usize] |= 1 << (i % 8);
        let vals = vec![
            mk(&|b| bit(b, k)),
            mk(&|b| {
                for i in 0..k {
                    bit(b, i)
                }
            }),
            mk(&|b| {
                bit(b, k);
                bit(b, 0)
            }),
            mk(&|b| {
                for i in 0..w {
                    if i != k {
                        bit(b, i)
                    }
                }
            }),
        ];
        let opt = ResolvedType::option(ty.clone());
        let tup = ResolvedType::tuple([ty.clone()]);
        let arr = ResolvedType::array(ty.clone(), 2);
        for v in vals {
            stats.values += 4;
            roundtrip(&ty, &v)?;
            roundtrip(&opt, &Value::some(v.clone()))?;
            roundtrip(&tup, &Value::tuple([v.clone()]))?;
            roundtrip(&arr, &Value::array([v.clone(), v.clone()], ty.clone()))?;
        }
        return Ok(());
    }
    simcore::valgen::set_wide_permille(60);
    let depth = rng.below(4);
    // one random item in five is "correlated": the components of the value share their bytes
    let correlated = rng.below(5) == 0;
    let ty = if correlated {
        let mut pool = [0u8; 32];
        if rng.below(3) != 0 {
            for x in pool.iter_mut() {
                *x = rng.below(256) as u8;
            }
        }
        simcore::valgen::set_pool(Some(pool));
        ResolvedType::tuple([simcore::valgen::gen_type_correlated(&mut rng), simcore::valgen::gen_type_correlated(&mut rng)])
    } else {
        simcore::valgen::gen_type(&mut rng, depth)
    };
    stats.types += 1;
    let mut res = type_roundtrip(&ty);
    for _ in 0..4 {
        if res.is_err() {
            break;
        }
        let v = simcore::valgen::gen_value(&mut rng, &ty);
        stats.values += 1;
        res = roundtrip(&ty, &v);
    }
    simcore::valgen::set_pool(None);
    simcore::valgen::set_wide_permille(8);
    res
}
