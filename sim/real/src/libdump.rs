//! libdump: one library compilation in a fresh process; prints the outcome as one JSON line.
use crate::Opts;
use simcore::{ops, seam};
use std::sync::Arc;

pub fn run(o: &Opts) -> i32 {
    // simreal libdump <file> <args-json-file|-> <debug:0|1>
    if o.rest.len() < 3 {
        eprintln!("usage: simreal libdump <file> <args-file|-> <0|1>");
        return 2;
    }
    let text = match std::fs::read_to_string(&o.rest[0]) {
        Ok(t) => t,
        Err(e) => {
            eprintln!("libdump: {e}");
            return 2;
        }
    };
    let args = if o.rest[1] == "-" {
        "{}".to_string()
    } else {
        match std::fs::read_to_string(&o.rest[1]) {
            Ok(t) => t,
            Err(e) => {
                eprintln!("libdump: {e}");
                return 2;
            }
        }
    };
    let debug = o.rest[2] == "1";
    let text: Arc<str> = Arc::from(text);
    // big stack: run on a thread (no reseed: the process seed from the environment applies)
    let outcome = std::thread::scope(|s| {
        std::thread::Builder::new()
            .stack_size(seam::STACK)
            .spawn_scoped(s, || ops::compile_direct(&text, &args, debug).0)
            .unwrap()
            .join()
            .unwrap()
    });
    println!("{}", outcome.to_json());
    0
}
