//! Leg A of C19: sequential histories of library operations over hash epochs (real code end to end).

use crate::Opts;
use simcore::corpus::{build, Case, CorpusSpec};
use simcore::digest::fnv1a;
use simcore::ops::{self, Outcome};
use simcore::prng::{mix, tag, Prng};
use simcore::report::Report;
use simcore::{seam, sizes};
use simfony::{CompiledProgram, TemplateProgram};

#[derive(Clone, Debug, PartialEq)]
pub enum Op {
    NewTemplate { case: usize },
    Instantiate { t: usize, args: usize, debug: bool },
    Compile { case: usize, args: usize, debug: bool },
    Commit { c: usize },
    Clone { c: usize },
    DropT { t: usize },
    DropC { c: usize },
    Satisfy { c: usize },
    Epoch { seed: u64 },
    /// how argument maps are constructed from here on (see ops::set_arg_route)
    ArgRoute { route: u8 },
}

impl Op {
    pub fn to_json(&self) -> serde_json::Value {
        use serde_json::json;
        match self {
            Op::NewTemplate { case } => json!({"op": "NewTemplate", "case": case}),
            Op::Instantiate { t, args, debug } => json!({"op": "Instantiate", "t": t, "args": args, "debug": debug}),
            Op::Compile { case, args, debug } => json!({"op": "Compile", "case": case, "args": args, "debug": debug}),
            Op::Commit { c } => json!({"op": "Commit", "c": c}),
            Op::Clone { c } => json!({"op": "Clone", "c": c}),
            Op::DropT { t } => json!({"op": "DropT", "t": t}),
            Op::DropC { c } => json!({"op": "DropC", "c": c}),
            Op::Satisfy { c } => json!({"op": "Satisfy", "c": c}),
            Op::Epoch { seed } => json!({"op": "Epoch", "seed": seed.to_string()}),
            Op::ArgRoute { route } => json!({"op": "ArgRoute", "route": route}),
        }
    }
    pub fn from_json(v: &serde_json::Value) -> Option<Op> {
        let u = |k: &str| v.get(k).and_then(|x| x.as_u64()).map(|x| x as usize);
        let b = |k: &str| v.get(k).and_then(|x| x.as_bool());
        Some(match v.get("op")?.as_str()? {
            "NewTemplate" => Op::NewTemplate { case: u("case")? },
            "Instantiate" => Op::Instantiate { t: u("t")?, args: u("args")?, debug: b("debug")? },
            "Compile" => Op::Compile { case: u("case")?, args: u("args")?, debug: b("debug")? },
            "Commit" => Op::Commit { c: u("c")? },
            "Clone" => Op::Clone { c: u("c")? },
            "DropT" => Op::DropT { t: u("t")? },
            "DropC" => Op::DropC { c: u("c")? },
            "Satisfy" => Op::Satisfy { c: u("c")? },
            "Epoch" => Op::Epoch { seed: v.get("seed")?.as_str()?.parse().ok()? },
            "ArgRoute" => Op::ArgRoute { route: u("route")? as u8 },
            _ => return None,
        })
    }
    fn name(&self) -> &'static str {
        match self {
            Op::NewTemplate { .. } => "NewTemplate",
            Op::Instantiate { .. } => "Instantiate",
            Op::Compile { .. } => "Compile",
            Op::Commit { .. } => "Commit",
            Op::Clone { .. } => "Clone",
            Op::DropT { .. } => "DropT",
            Op::DropC { .. } => "DropC",
            Op::Satisfy { .. } => "Satisfy",
            Op::Epoch { .. } => "Epoch",
            Op::ArgRoute { .. } => "ArgRoute",
        }
    }
}

/// Draw the operation list of one run.  `cases` = indices (into the run's own case list) to use.
pub fn draw_ops(rng: &mut Prng, cases: &[&Case], epic: bool) -> Vec<Op> {
    // one run in twelve is a long history on few threads (residue that accumulates per thread or
    // per process needs many operations, in particular many failing ones, to show)
    let long = epic || rng.below(12) == 0;
    // "epic" runs (small programs only): hundreds of compilations in one process, for state that
    // wraps, fills up or expires only after many uses
    let n = if epic { rng.range(300, 900) } else if long { rng.range(60, 220) } else { rng.range(4, 24) };
    let mut ops = Vec::new();
    // live slots, tracked symbolically
    let mut templates: Vec<(usize, bool)> = Vec::new(); // (case, live)
    let mut compiled: Vec<bool> = Vec::new();
    ops.push(Op::Epoch { seed: rng.next() | 1 });
    while ops.len() < n {
        let live_t: Vec<usize> = templates.iter().enumerate().filter(|(_, t)| t.1).map(|(i, _)| i).collect();
        let live_c: Vec<usize> = compiled.iter().enumerate().filter(|(_, l)| **l).map(|(i, _)| i).collect();
        match rng.below(20) {
            0 | 1 => {
                let case = rng.below(cases.len());
                templates.push((case, true));
                ops.push(Op::NewTemplate { case });
            }
            2..=5 if !live_t.is_empty() => {
                let t = *rng.pick(&live_t);
                let case = templates[t].0;
                let args = rng.below(cases[case].args.len());
                ops.push(Op::Instantiate { t, args, debug: rng.coin() });
                compiled.push(true);
            }
            6..=8 => {
                let case = rng.below(cases.len());
                let args = rng.below(cases[case].args.len());
                ops.push(Op::Compile { case, args, debug: rng.coin() });
                compiled.push(true);
            }
            9..=13 if !live_c.is_empty() => {
                ops.push(Op::Commit { c: *rng.pick(&live_c) });
            }
            14 if !live_c.is_empty() => {
                ops.push(Op::Clone { c: *rng.pick(&live_c) });
                compiled.push(true);
            }
            15 if !live_t.is_empty() && rng.coin() => {
                let t = *rng.pick(&live_t);
                templates[t].1 = false;
                ops.push(Op::DropT { t });
            }
            16 if !live_c.is_empty() => {
                let c = *rng.pick(&live_c);
                compiled[c] = false;
                ops.push(Op::DropC { c });
            }
            17 if !live_c.is_empty() => {
                ops.push(Op::Satisfy { c: *rng.pick(&live_c) });
            }
            18 if long && rng.below(8) != 0 => {
                // long histories stay on their thread most of the time
                let case = rng.below(cases.len());
                let args = rng.below(cases[case].args.len());
                ops.push(Op::Compile { case, args, debug: rng.coin() });
                compiled.push(true);
            }
            18 => ops.push(Op::Epoch { seed: rng.next() | 1 }),
            19 => {
                if rng.coin() {
                    ops.push(Op::Epoch { seed: rng.next() | 1 })
                } else {
                    ops.push(Op::ArgRoute { route: rng.below(4) as u8 })
                }
            }
            _ => {}
        }
    }
    ops
}

/// Programs of a storm run: `(case, argument variant, accepted?)`; the first is accepted, the
/// others are rejected (one of them, where there is one, not by the grammar but by the analysis).
pub fn storm_cases(rng: &mut Prng, cases: &[Case], golden: &simcore::Golden) -> Option<Vec<(usize, usize, bool)>> {
    let mut oks = Vec::new();
    let mut errs = Vec::new();
    let mut late_errs = Vec::new();
    for (i, c) in cases.iter().enumerate() {
        if c.text.len() >= 2000 {
            continue;
        }
        for a in 0..c.args.len() {
            match (golden.get(&(i, a, false)), golden.get(&(i, a, true))) {
                (Some(Outcome::Ok { .. }), Some(Outcome::Ok { .. })) => oks.push((i, a, true)),
                (Some(Outcome::Err(e)), Some(Outcome::Err(_))) => {
                    if !e.contains("Grammar error") {
                        late_errs.push((i, a, false));
                    }
                    errs.push((i, a, false));
                }
                _ => {}
            }
        }
    }
    if oks.is_empty() || errs.is_empty() {
        return None;
    }
    let mut pick = vec![*rng.pick(&oks)];
    pick.push(if late_errs.is_empty() { *rng.pick(&errs) } else { *rng.pick(&late_errs) });
    if rng.coin() {
        pick.push(*rng.pick(&errs));
    }
    Some(pick)
}

/// One thread, no change of hash epoch: the accepted program, then 260..520 operations of which
/// four in five compile a rejected program, with the accepted one compiled again now and then and
/// at the end (both debug settings).
pub fn draw_storm(rng: &mut Prng, pick: &[(usize, usize, bool)]) -> Vec<Op> {
    let mut ops = vec![Op::Epoch { seed: rng.next() | 1 }];
    let (_, ok_args, _) = pick[0];
    let mut n_compiled = 0usize;
    let mut ok_slots: Vec<usize> = Vec::new();
    for d in [false, true] {
        ops.push(Op::Compile { case: 0, args: ok_args, debug: d });
        ok_slots.push(n_compiled);
        n_compiled += 1;
    }
    let n = rng.range(260, 520);
    for _ in 0..n {
        match rng.below(20) {
            0..=15 => {
                let e = 1 + rng.below(pick.len() - 1);
                ops.push(Op::Compile { case: e, args: pick[e].1, debug: rng.coin() });
                n_compiled += 1;
            }
            16 | 17 => {
                ops.push(Op::Compile { case: 0, args: ok_args, debug: rng.coin() });
                ok_slots.push(n_compiled);
                n_compiled += 1;
            }
            18 => ops.push(Op::NewTemplate { case: 1 + rng.below(pick.len() - 1) }),
            _ => ops.push(Op::Commit { c: *rng.pick(&ok_slots) }),
        }
    }
    for d in [false, true] {
        ops.push(Op::Compile { case: 0, args: ok_args, debug: d });
    }
    ops
}

pub struct Violation {
    pub class: String,
    pub step: usize,
    pub detail: String,
    pub expected: serde_json::Value,
    pub observed: serde_json::Value,
}

#[derive(Default)]
pub struct ExecStats {
    pub commits: u64,
    pub compiles: u64,
    pub instantiates: u64,
    pub satisfy_observed: u64,
    pub satisfy_divergence_observed_not_judged: u64,
    pub epochs: u64,
    pub distinct_orders: std::collections::BTreeSet<u64>,
    pub handle_crossed_epoch: u64,
    pub excluded_lib_panics: u64,
}

struct Slot {
    case: usize,
    args: usize,
    debug: bool,
    /// None = instantiate/compile failed (verdict already judged)
    prog: Option<CompiledProgram>,
    born_epoch: u64,
}

/// Execute an operation list.  `reference(case, args, debug)` is the golden table.
/// Returns the event log lines and the first violation (execution stops there).
pub fn exec(
    ops_list: &[Op],
    cases: &[&Case],
    reference: &dyn Fn(usize, usize, bool) -> Option<Outcome>,
    stats: &mut ExecStats,
) -> (Vec<String>, Option<Violation>) {
    // split into epochs
    let mut segments: Vec<(u64, Vec<(usize, Op)>)> = vec![(1, Vec::new())];
    for (i, op) in ops_list.iter().enumerate() {
        if let Op::Epoch { seed } = op {
            segments.push((*seed, Vec::new()));
        } else {
            segments.last_mut().unwrap().1.push((i, op.clone()));
        }
    }
    let mut templates: Vec<Option<(usize, Option<TemplateProgram>)>> = Vec::new();
    let mut compiled: Vec<Option<Slot>> = Vec::new();
    let mut satisfy_seen: std::collections::BTreeMap<(usize, usize, bool), String> = Default::default();
    let mut log = Vec::new();
    let mut epoch_no = 0u64;
    let mut arg_route: u8 = 0;
    for (seed, seg) in segments {
        if seg.is_empty() {
            continue;
        }
        epoch_no += 1;
        stats.epochs += 1;
        let en = epoch_no;
        let res: Option<Violation> = {
            let (templates, compiled, satisfy_seen, log, stats, arg_route) =
                (&mut templates, &mut compiled, &mut satisfy_seen, &mut log, &mut *stats, &mut arg_route);
            // `reference` is only used on this thread while the parent is blocked
            struct SendPtr<T>(T);
            unsafe impl<T> Send for SendPtr<T> {}
            let refp = SendPtr(reference);
            let casesp = SendPtr(cases);
            seam::epoch(seed, move || {
                let refp = refp;
                let casesp = casesp;
                let reference = refp.0;
                let cases = casesp.0;
                let fp = seam::order_fingerprint();
                stats.distinct_orders.insert(fp);
                ops::set_arg_route(*arg_route);
                log.push(format!("A\tepoch {en}\tseed={seed:x}\torder_fp={fp:016x}"));
                for (step, op) in seg {
                    let mut judged = |what: &str, want: &Outcome, got: &Outcome, log: &mut Vec<String>| -> Option<Violation> {
                        log.push(format!("A\t{step}\t{what}\t-> {}", got.key()));
                        if let Outcome::Panic(_) = want {
                            return None;
                        }
                        if want.key() != got.key() {
                            let class = if let Outcome::Panic(_) = got {
                                format!("PANIC({})", op.name())
                            } else {
                                format!("MISMATCH({})", op.name())
                            };
                            return Some(Violation {
                                class,
                                step,
                                detail: format!("{what}: golden {} observed {}", want.key(), got.key()),
                                expected: want.to_json(),
                                observed: got.to_json(),
                            });
                        }
                        None
                    };
                    match &op {
                        Op::NewTemplate { case } => {
                            let c = cases[*case];
                            let r = ops::new_template(&c.text);
                            // verdict: if the template is rejected, every compilation of that text is
                            let any_ok = (0..c.args.len()).any(|a| {
                                [false, true].iter().any(|d| matches!(reference(*case, a, *d), Some(Outcome::Ok { .. })))
                            });
                            let any_panic = (0..c.args.len()).any(|a| {
                                [false, true].iter().any(|d| matches!(reference(*case, a, *d), Some(Outcome::Panic(_))))
                            });
                            match r {
                                Err(p) => {
                                    log.push(format!("A\t{step}\tNewTemplate({})\t-> panic", c.id));
                                    templates.push(Some((*case, None)));
                                    if !any_panic {
                                        return Some(Violation {
                                            class: "PANIC(NewTemplate)".into(),
                                            step,
                                            detail: format!("TemplateProgram::new panicked: {p}"),
                                            expected: serde_json::json!("no panic (golden did not panic)"),
                                            observed: serde_json::json!({"class": "panic", "message": p}),
                                        });
                                    }
                                }
                                Ok(Err(e)) => {
                                    log.push(format!("A\t{step}\tNewTemplate({})\t-> err", c.id));
                                    templates.push(Some((*case, None)));
                                    if any_ok {
                                        return Some(Violation {
                                            class: "MISMATCH(NewTemplate)".into(),
                                            step,
                                            detail: format!("TemplateProgram::new rejected a text the golden run compiled: {e}"),
                                            expected: serde_json::json!("accepted"),
                                            observed: serde_json::json!({"class": "err", "message": e}),
                                        });
                                    }
                                }
                                Ok(Ok(t)) => {
                                    log.push(format!("A\t{step}\tNewTemplate({})\t-> ok", c.id));
                                    templates.push(Some((*case, Some(t))));
                                }
                            }
                        }
                        Op::Instantiate { t, args, debug } => {
                            let Some(Some((case, tp))) = templates.get(*t) else {
                                compiled.push(None);
                                continue;
                            };
                            let case = *case;
                            let c = cases[case];
                            if *args >= c.args.len() {
                                compiled.push(None);
                                continue;
                            }
                            stats.instantiates += 1;
                            let want = reference(case, *args, *debug);
                            let Some(tp) = tp else {
                                // template was rejected: nothing to instantiate
                                compiled.push(None);
                                continue;
                            };
                            let r = ops::instantiate(tp, &c.args[*args], *debug);
                            let what = format!("Instantiate({},a={args},d={debug})", c.id);
                            match r {
                                Err(p) => {
                                    compiled.push(None);
                                    if let Some(w) = &want {
                                        if let Some(v) = judged(&what, w, &Outcome::Panic(p), log) {
                                            return Some(v);
                                        }
                                    }
                                }
                                Ok(Err(e)) => {
                                    compiled.push(None);
                                    if let Some(w) = &want {
                                        if let Some(v) = judged(&what, w, &Outcome::Err(e), log) {
                                            return Some(v);
                                        }
                                    }
                                }
                                Ok(Ok(p)) => {
                                    log.push(format!("A\t{step}\t{what}\t-> handle"));
                                    if let Some(Outcome::Err(e)) = &want {
                                        compiled.push(None);
                                        return Some(Violation {
                                            class: "MISMATCH(Instantiate)".into(),
                                            step,
                                            detail: format!("{what}: golden rejected ({}), instantiate accepted", e.lines().last().unwrap_or("")),
                                            expected: want.as_ref().unwrap().to_json(),
                                            observed: serde_json::json!({"class": "ok"}),
                                        });
                                    }
                                    compiled.push(Some(Slot { case, args: *args, debug: *debug, prog: Some(p), born_epoch: en }));
                                }
                            }
                        }
                        Op::Compile { case, args, debug } => {
                            let c = cases[*case];
                            if *args >= c.args.len() {
                                compiled.push(None);
                                continue;
                            }
                            stats.compiles += 1;
                            let (got, prog) = ops::compile_direct(&c.text, &c.args[*args], *debug);
                            let what = format!("Compile({},a={args},d={debug})", c.id);
                            let want = reference(*case, *args, *debug);
                            compiled.push(prog.map(|p| Slot { case: *case, args: *args, debug: *debug, prog: Some(p), born_epoch: en }));
                            if let Some(w) = &want {
                                if let Outcome::Panic(_) = w {
                                    stats.excluded_lib_panics += 1;
                                }
                                if let Some(v) = judged(&what, w, &got, log) {
                                    return Some(v);
                                }
                            }
                        }
                        Op::Commit { c } => {
                            let Some(Some(slot)) = compiled.get(*c) else { continue };
                            let Some(p) = &slot.prog else { continue };
                            stats.commits += 1;
                            if slot.born_epoch != en {
                                stats.handle_crossed_epoch += 1;
                            }
                            let got = ops::observe_commit(p);
                            let what = format!("Commit(c{c}={},a={},d={})", cases[slot.case].id, slot.args, slot.debug);
                            if let Some(w) = reference(slot.case, slot.args, slot.debug) {
                                if let Some(v) = judged(&what, &w, &got, log) {
                                    return Some(v);
                                }
                            }
                        }
                        Op::Clone { c } => {
                            let Some(Some(slot)) = compiled.get(*c) else {
                                compiled.push(None);
                                continue;
                            };
                            let s2 = Slot { case: slot.case, args: slot.args, debug: slot.debug, prog: slot.prog.clone(), born_epoch: slot.born_epoch };
                            log.push(format!("A\t{step}\tClone(c{c})\t-> c{}", compiled.len()));
                            compiled.push(Some(s2));
                        }
                        Op::DropT { t } => {
                            if let Some(x) = templates.get_mut(*t) {
                                *x = None;
                                log.push(format!("A\t{step}\tDropT(t{t})"));
                            }
                        }
                        Op::DropC { c } => {
                            if let Some(x) = compiled.get_mut(*c) {
                                *x = None;
                                log.push(format!("A\t{step}\tDropC(c{c})"));
                            }
                        }
                        Op::Satisfy { c } => {
                            let Some(Some(slot)) = compiled.get(*c) else { continue };
                            let Some(p) = &slot.prog else { continue };
                            let Some(w) = &cases[slot.case].witness else { continue };
                            let k = ops::observe_satisfy(p, w);
                            stats.satisfy_observed += 1;
                            log.push(format!("A\t{step}\tSatisfy(c{c})\t-> {k} (observed, not judged)"));
                            let key = (slot.case, slot.args, slot.debug);
                            if let Some(prev) = satisfy_seen.get(&key) {
                                if *prev != k {
                                    stats.satisfy_divergence_observed_not_judged += 1;
                                }
                            } else {
                                satisfy_seen.insert(key, k);
                            }
                        }
                        Op::Epoch { .. } => {}
                        Op::ArgRoute { route } => {
                            *arg_route = *route;
                            ops::set_arg_route(*route);
                            log.push(format!("A\t{step}\tArgRoute({route})"));
                        }
                    }
                }
                None
            })
        };
        if res.is_some() {
            return (log, res);
        }
    }
    (log, None)
}

/// Execute one run in a child process (`simreal legA-exec <file>`): the child gets the programs,
/// the operations and the golden entries of those programs, and reports log, violation and stats.
fn exec_isolated(
    o: &Opts,
    run: u64,
    run_seed: u64,
    ops_list: &[Op],
    sel: &[&Case],
    reference: &dyn Fn(usize, usize, bool) -> Option<Outcome>,
    stats: &mut ExecStats,
) -> Result<(Vec<String>, Option<Violation>), String> {
    let mut table = Vec::new();
    for (ci, c) in sel.iter().enumerate() {
        for ai in 0..c.args.len() {
            for d in [false, true] {
                if let Some(out) = reference(ci, ai, d) {
                    table.push(serde_json::json!({"case": ci, "args": ai, "debug": d, "outcome": out.to_json()}));
                }
            }
        }
    }
    let doc = serde_json::json!({
        "leg": "A", "run": run,
        "programs": sel.iter().map(|c| c.to_json()).collect::<Vec<_>>(),
        "ops": ops_list.iter().map(|o| o.to_json()).collect::<Vec<_>>(),
        "reference": table,
    });
    let dir = o.out.join(format!("lega-{}", o.shard));
    std::fs::create_dir_all(&dir).map_err(|e| e.to_string())?;
    let file = dir.join("run.json");
    std::fs::write(&file, doc.to_string()).map_err(|e| e.to_string())?;
    let me = std::env::current_exe().map_err(|e| e.to_string())?;
    let argv = vec!["legA-exec".to_string(), file.to_string_lossy().to_string()];
    let r = crate::child::run(&me, &argv, run_seed | 1, &crate::child::Io::default()).map_err(|e| e.to_string())?;
    if r.status != Some(0) {
        return Err(format!("legA-exec ended with status {:?}: {}", r.status, String::from_utf8_lossy(&r.stderr).chars().take(500).collect::<String>()));
    }
    let v: serde_json::Value = serde_json::from_slice(&r.stdout).map_err(|e| format!("legA-exec output unreadable: {e}"))?;
    let log: Vec<String> = v["log"].as_array().map(|a| a.iter().filter_map(|x| x.as_str().map(|s| s.to_string())).collect()).unwrap_or_default();
    let st = &v["stats"];
    let g = |k: &str| st.get(k).and_then(|x| x.as_u64()).unwrap_or(0);
    stats.commits += g("commits");
    stats.compiles += g("compiles");
    stats.instantiates += g("instantiates");
    stats.satisfy_observed += g("satisfy_observed");
    stats.satisfy_divergence_observed_not_judged += g("satisfy_divergence");
    stats.epochs += g("epochs");
    stats.handle_crossed_epoch += g("handle_crossed_epoch");
    stats.excluded_lib_panics += g("excluded_lib_panics");
    if let Some(a) = st.get("orders").and_then(|x| x.as_array()) {
        for x in a {
            if let Some(n) = x.as_str().and_then(|s| u64::from_str_radix(s, 16).ok()) {
                stats.distinct_orders.insert(n);
            }
        }
    }
    let viol = v.get("violation").filter(|x| !x.is_null()).map(|x| Violation {
        class: x["class"].as_str().unwrap_or("").to_string(),
        step: x["step"].as_u64().unwrap_or(0) as usize,
        detail: x["detail"].as_str().unwrap_or("").to_string(),
        expected: x["expected"].clone(),
        observed: x["observed"].clone(),
    });
    Ok((log, viol))
}

/// `simreal legA-exec <file>`: the child side of `exec_isolated` (also what replay executes).
pub fn exec_main(o: &Opts) -> i32 {
    let Some(path) = o.rest.first() else { return 2 };
    let Ok(text) = std::fs::read_to_string(path) else { return 2 };
    let Ok(doc) = serde_json::from_str::<serde_json::Value>(&text) else { return 2 };
    let cases: Vec<Case> = doc.get("programs").and_then(|p| p.as_array()).map(|a| a.iter().filter_map(Case::from_json).collect()).unwrap_or_default();
    let ops_list: Vec<Op> = doc.get("ops").and_then(|p| p.as_array()).map(|a| a.iter().filter_map(Op::from_json).collect()).unwrap_or_default();
    let mut table: std::collections::BTreeMap<(usize, usize, bool), Outcome> = Default::default();
    for e in doc.get("reference").and_then(|r| r.as_array()).cloned().unwrap_or_default() {
        if let (Some(c), Some(a), Some(d), Some(out)) = (e["case"].as_u64(), e["args"].as_u64(), e["debug"].as_bool(), Outcome::from_json(&e["outcome"])) {
            table.insert((c as usize, a as usize, d), out);
        }
    }
    let sel: Vec<&Case> = cases.iter().collect();
    let reference = |c: usize, a: usize, d: bool| table.get(&(c, a, d)).cloned();
    let mut stats = ExecStats::default();
    let (log, viol) = exec(&ops_list, &sel, &reference, &mut stats);
    let out = serde_json::json!({
        "log": log,
        "violation": viol.map(|v| serde_json::json!({"class": v.class, "step": v.step, "detail": v.detail, "expected": v.expected, "observed": v.observed})),
        "stats": {
            "commits": stats.commits, "compiles": stats.compiles, "instantiates": stats.instantiates,
            "satisfy_observed": stats.satisfy_observed, "satisfy_divergence": stats.satisfy_divergence_observed_not_judged,
            "epochs": stats.epochs, "handle_crossed_epoch": stats.handle_crossed_epoch, "excluded_lib_panics": stats.excluded_lib_panics,
            "orders": stats.distinct_orders.iter().map(|x| format!("{x:x}")).collect::<Vec<_>>(),
        },
    });
    println!("{out}");
    0
}

pub fn run(o: &Opts) -> i32 {
    if !seam::present() {
        eprintln!("legA: shim not preloaded");
        return 2;
    }
    let golden = match crate::legc::load_golden(o) {
        Some(g) => g,
        None => {
            eprintln!("legA: golden.json missing or unreadable");
            return 2;
        }
    };
    let sz = sizes(&o.tier);
    let cases = build(&CorpusSpec { seed: o.seed, generated: sz.generated, mutated: sz.mutated, layout: sz.layout, literal: sz.literal }, &o.repo, &o.verif);
    let runs: u64 = if o.tier == "thorough" { 12_000 } else { 480 };
    let mut rep = Report::new(&o.out, "A", o.shard);
    let mut stats = ExecStats::default();
    // "storm" runs come after the ordinary ones (run numbers >= runs, so the ordinary runs are
    // exactly what they were before storms existed): hundreds of *rejected* compilations on one
    // thread around an accepted program whose verdict and bytes must not change
    let storms: u64 = if o.tier == "thorough" { 480 } else { 16 };
    for run in 0..runs + storms {
        if (run as usize) % o.shards != o.shard {
            continue;
        }
        let s = mix(o.seed ^ tag("legA") ^ run);
        let mut rng = Prng::new(s);
        let storm_pick = if run >= runs { storm_cases(&mut rng, &cases, &golden) } else { None };
        let storm = storm_pick.is_some();
        let epic = !storm && rng.below(40) == 0;
        // 1..4 cases per run, biased to repeat few programs many times
        let k = if storm { 0 } else { rng.range(1, 4) };
        // every other run draws its programs from one family (an original and texts derived from
        // it: same spans and names, other constants / layout), so that anything keyed by position
        // or by name across compilations gets near-identical programs on one thread
        let idx: Vec<usize> = if let Some(pick) = &storm_pick {
            pick.iter().map(|p| p.0).collect()
        } else if epic {
            let small: Vec<usize> = (0..cases.len()).filter(|i| cases[*i].text.len() < 2500).collect();
            (0..k.max(2)).map(|_| *rng.pick(&small)).collect()
        } else if rng.coin() {
            let derived: Vec<usize> = (0..cases.len()).filter(|i| cases[*i].family != *i).collect();
            let fam = if derived.is_empty() { cases[rng.below(cases.len())].family } else { cases[*rng.pick(&derived)].family };
            let members: Vec<usize> = (0..cases.len()).filter(|i| cases[*i].family == fam).collect();
            (0..k.max(2)).map(|_| *rng.pick(&members)).collect()
        } else {
            (0..k).map(|_| rng.below(cases.len())).collect()
        };
        let sel: Vec<&Case> = idx.iter().map(|i| &cases[*i]).collect();
        let ops_list = match &storm_pick {
            Some(pick) => draw_storm(&mut rng, pick),
            None => draw_ops(&mut rng, &sel, epic),
        };
        if storm {
            rep.count("storm_runs_260_to_520_mostly_rejected_compilations_on_one_thread", 1);
        }
        if epic {
            rep.count("epic_runs_300_to_900_operations", 1);
        }
        let reference = |c: usize, a: usize, d: bool| golden.get(&(idx[c], a, d)).cloned();
        rep.event(&format!("A\trun {run}\tseed={s:x}\tcases={:?}", sel.iter().map(|c| c.id.as_str()).collect::<Vec<_>>()));
        // every run executes in its own fresh process (process-global state of earlier runs must
        // not leak into this one: `./check replay` re-executes exactly what ran here)
        let (log, viol) = match exec_isolated(o, run, s, &ops_list, &sel, &reference, &mut stats) {
            Ok(x) => x,
            Err(e) => {
                eprintln!("legA: run {run}: {e}");
                return 2;
            }
        };
        for l in &log {
            rep.event(l);
        }
        rep.evaluations += 1;
        // non-trivial: the run observed >= 1 commit/compile in >= 2 epochs with different orders
        let fps: std::collections::BTreeSet<&str> = log
            .iter()
            .filter(|l| l.contains("\tepoch "))
            .filter_map(|l| l.rsplit("order_fp=").next())
            .collect();
        let observed = log.iter().filter(|l| l.contains("-> ok:")).count();
        if fps.len() >= 2 && observed >= 2 {
            let mut h = String::new();
            for op in &ops_list {
                h.push_str(&op.to_json().to_string());
            }
            for c in &sel {
                h.push_str(&c.id);
            }
            rep.nontrivial.insert(fnv1a(h.as_bytes()));
        }
        if rep.samples.len() < 2 {
            rep.sample(serde_json::json!({
                "leg": "A", "run": run, "cases": sel.iter().map(|c| c.id.clone()).collect::<Vec<_>>(),
                "ops": ops_list.iter().map(|o| o.to_json()).collect::<Vec<_>>(),
                "log": log,
            }));
        }
        if let Some(v) = viol {
            let ops_s: Vec<String> = ops_list.iter().filter(|o| !matches!(o, Op::Epoch { .. })).map(|o| o.name().to_string()).collect();
            let ops_txt = if ops_s.len() <= 40 {
                ops_s.join(",")
            } else {
                // long histories: operation counts instead of the list (the replay file has the list)
                let mut counts: std::collections::BTreeMap<&str, usize> = Default::default();
                for o in &ops_s {
                    *counts.entry(o.as_str()).or_default() += 1;
                }
                format!("{} operations: {}", ops_s.len(), counts.iter().map(|(k, n)| format!("{k} x{n}")).collect::<Vec<_>>().join(", "))
            };
            let scenario = format!("{} in [{}] on {}", v.class, ops_txt, sel.iter().map(|c| c.id.as_str()).collect::<Vec<_>>().join("+"));
            let path = o.verif.join("replays").join(format!("C19-A-{}-{}.json", o.seed, run));
            let doc = serde_json::json!({
                "property": "C19", "leg": "A", "class": v.class, "detail": v.detail, "scenario": scenario,
                "verif_seed": o.seed, "run": run, "step": v.step,
                "programs": sel.iter().map(|c| c.to_json()).collect::<Vec<_>>(),
                "ops": ops_list.iter().map(|o| o.to_json()).collect::<Vec<_>>(),
                "expected": v.expected, "observed": v.observed,
            });
            rep.violations.push(serde_json::json!({"class": v.class, "scenario": scenario, "replay": path, "doc": doc}));
        }
    }
    rep.count("commits_observed", stats.commits);
    rep.count("compiles", stats.compiles);
    rep.count("instantiates", stats.instantiates);
    rep.count("epochs", stats.epochs);
    rep.count("probe_handle_crossed_a_hash_epoch", stats.handle_crossed_epoch);
    rep.count("satisfy_observed_not_judged", stats.satisfy_observed);
    rep.count("satisfy_divergence_observed_not_judged", stats.satisfy_divergence_observed_not_judged);
    rep.count("excluded_lib_panics", stats.excluded_lib_panics);
    for fp in &stats.distinct_orders {
        rep.set_add("hash_order_fingerprints", *fp);
    }
    let nviol = rep.violations.len();
    if rep.finish().is_err() {
        return 2;
    }
    if nviol > 0 {
        1
    } else {
        0
    }
}
