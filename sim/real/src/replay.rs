//! Replay and minimisation of leg A, leg C and C15 replay files.
//!
//! `simreal replay <file>` re-executes the file in this (fresh) process and ends with exit status 1
//! and a VIOLATION line when the same violation class is reached again, 0 when nothing is violated.
//! The reference outcomes are recomputed by fresh single-threaded child processes with hash seed 0
//! (never in this process, whose history is the thing under test).
//! `simreal minimise <file>` shrinks the file while the same class persists (every candidate runs in
//! its own fresh process) and rewrites it in place.

use crate::child::{self, Io};
use crate::lega::{self, Op};
use crate::legc;
use crate::Opts;
use simcore::corpus::Case;
use simcore::ops::Outcome;
use std::collections::BTreeMap;
use std::path::{Path, PathBuf};

fn read_doc(path: &str) -> Option<serde_json::Value> {
    serde_json::from_str(&std::fs::read_to_string(path).ok()?).ok()
}

fn scratch(o: &Opts) -> PathBuf {
    let d = o.verif.join("build/out/replay-scratch").join(std::process::id().to_string());
    std::fs::create_dir_all(&d).ok();
    d
}

/// Golden outcome of one compilation: fresh process, hash seed 0, no faults.
fn fresh_reference(dir: &Path, case: &Case, ai: usize, debug: bool) -> Option<Outcome> {
    let (file, afile) = legc::write_case_files(dir, "ref", case, ai);
    let argv = vec![
        "libdump".to_string(),
        file.to_string_lossy().to_string(),
        afile.to_string_lossy().to_string(),
        if debug { "1".into() } else { "0".into() },
    ];
    let me = std::env::current_exe().ok()?;
    let r = child::run(&me, &argv, 0, &Io::default()).ok()?;
    legc::parse_libdump(&r)
}

type RefTable = BTreeMap<(usize, usize, bool), Outcome>;

fn table_from_doc(doc: &serde_json::Value) -> Option<RefTable> {
    let mut t = RefTable::new();
    for e in doc.get("reference")?.as_array()? {
        t.insert(
            (e.get("case")?.as_u64()? as usize, e.get("args")?.as_u64()? as usize, e.get("debug")?.as_bool()?),
            Outcome::from_json(e.get("outcome")?)?,
        );
    }
    Some(t)
}

fn table_to_json(t: &RefTable) -> serde_json::Value {
    serde_json::Value::Array(
        t.iter()
            .map(|((c, a, d), o)| serde_json::json!({"case": c, "args": a, "debug": d, "outcome": o.to_json()}))
            .collect(),
    )
}

fn full_table(dir: &Path, cases: &[Case]) -> Option<RefTable> {
    let mut t = RefTable::new();
    for (ci, c) in cases.iter().enumerate() {
        for ai in 0..c.args.len() {
            for d in [false, true] {
                t.insert((ci, ai, d), fresh_reference(dir, c, ai, d)?);
            }
        }
    }
    Some(t)
}

// ------------------------------------------------------------------ leg A

fn replay_a(o: &Opts, doc: &serde_json::Value, path: &str, quiet: bool) -> i32 {
    let cases: Vec<Case> = doc
        .get("programs")
        .and_then(|p| p.as_array())
        .map(|a| a.iter().filter_map(Case::from_json).collect())
        .unwrap_or_default();
    let ops_list: Vec<Op> = doc
        .get("ops")
        .and_then(|p| p.as_array())
        .map(|a| a.iter().filter_map(Op::from_json).collect())
        .unwrap_or_default();
    let class = doc.get("class").and_then(|c| c.as_str()).unwrap_or("");
    let dir = scratch(o);
    let table = if o.rest.iter().any(|a| a == "--use-recorded-reference") {
        table_from_doc(doc)
    } else {
        full_table(&dir, &cases)
    };
    let _ = std::fs::remove_dir_all(&dir);
    let Some(table) = table else {
        eprintln!("replay: cannot compute the reference table");
        return 2;
    };
    let sel: Vec<&Case> = cases.iter().collect();
    let reference = |c: usize, a: usize, d: bool| table.get(&(c, a, d)).cloned();
    let mut stats = lega::ExecStats::default();
    let (log, viol) = lega::exec(&ops_list, &sel, &reference, &mut stats);
    if !quiet {
        for l in &log {
            println!("{l}");
        }
    }
    match viol {
        Some(v) => {
            println!("replay: {} at step {} - {}", v.class, v.step, v.detail);
            if v.class == class {
                println!("VIOLATION property=C19 replay={path}");
                1
            } else {
                println!("replay: class differs from the recorded one ({class})");
                3
            }
        }
        None => {
            println!("replay: no violation");
            0
        }
    }
}

fn run_candidate(path: &Path, extra: &[&str]) -> i32 {
    let me = std::env::current_exe().unwrap();
    let mut argv = vec!["replay".to_string(), path.to_string_lossy().to_string(), "--quiet".to_string()];
    argv.extend(extra.iter().map(|s| s.to_string()));
    match child::run(&me, &argv, 0, &Io::default()) {
        Ok(r) => r.status.unwrap_or(2),
        Err(_) => 2,
    }
}

fn minimise_a(o: &Opts, mut doc: serde_json::Value, path: &str) -> i32 {
    let cases: Vec<Case> = doc
        .get("programs")
        .and_then(|p| p.as_array())
        .map(|a| a.iter().filter_map(Case::from_json).collect())
        .unwrap_or_default();
    let dir = scratch(o);
    let Some(table) = full_table(&dir, &cases) else { return 2 };
    doc["reference"] = table_to_json(&table);
    let mut ops: Vec<serde_json::Value> = doc.get("ops").and_then(|o| o.as_array()).cloned().unwrap_or_default();
    let before = ops.len();
    let cand = dir.join("candidate.json");
    let mut budget = 400;
    let try_ops = |ops: &[serde_json::Value], doc: &serde_json::Value, budget: &mut i32| -> bool {
        if *budget <= 0 {
            return false;
        }
        *budget -= 1;
        let mut d = doc.clone();
        d["ops"] = serde_json::Value::Array(ops.to_vec());
        std::fs::write(&cand, d.to_string()).ok();
        run_candidate(&cand, &["--use-recorded-reference"]) == 1
    };
    if !try_ops(&ops, &doc, &mut budget) {
        println!("minimise: the file does not reproduce; left unchanged");
        let _ = std::fs::remove_dir_all(&dir);
        return 0;
    }
    // (no wall clock here: this process runs under the simulated clock of seam S6; the driver
    //  bounds the minimisation from outside)
    // 1. nothing after the violating step matters
    if let Some(step) = doc.get("step").and_then(|s| s.as_u64()) {
        let cut = (step as usize + 1).min(ops.len());
        if cut < ops.len() && try_ops(&ops[..cut], &doc, &mut budget) {
            ops.truncate(cut);
        }
    }
    // 2. remove chunks (halves, quarters, ...), then single operations
    let mut chunk = ops.len() / 2;
    while chunk >= 1 && budget > 0 {
        let mut i = 0;
        while i < ops.len() && budget > 0 {
            let end = (i + chunk).min(ops.len());
            if end - i == ops.len() {
                break;
            }
            let mut c = ops.clone();
            c.drain(i..end);
            if try_ops(&c, &doc, &mut budget) {
                ops = c;
            } else {
                i += chunk;
            }
        }
        if chunk == 1 {
            break;
        }
        chunk /= 2;
    }
    doc["ops"] = serde_json::Value::Array(ops.clone());
    doc["minimised"] = serde_json::json!({"ops_before": before, "ops_after": ops.len()});
    doc.as_object_mut().unwrap().remove("reference");
    std::fs::write(path, serde_json::to_string_pretty(&doc).unwrap()).ok();
    let _ = std::fs::remove_dir_all(&dir);
    println!("minimise: ops {before} -> {}", ops.len());
    0
}

// ------------------------------------------------------------------ leg C

fn exec_c(o: &Opts, doc: &serde_json::Value, dir: &Path) -> Result<Option<(String, String)>, String> {
    let case = doc.get("program").and_then(Case::from_json).ok_or("no program")?;
    let ai = doc.get("args_index").and_then(|a| a.as_u64()).unwrap_or(0) as usize;
    let debug = doc.get("debug").and_then(|a| a.as_bool()).unwrap_or(false);
    let hs = doc.get("hash_seeds").and_then(|h| h.get(0)).and_then(|h| h.as_u64()).unwrap_or(1);
    let plan = doc.get("io_plan").and_then(|p| p.as_str()).unwrap_or("");
    let op = doc.get("op").and_then(|p| p.as_str()).unwrap_or("Simc");
    if ai >= case.args.len() {
        return Err("args index out of range".into());
    }
    let reference = fresh_reference(dir, &case, ai, debug).ok_or("reference process failed")?;
    if let Outcome::Panic(_) = reference {
        return Ok(None);
    }
    let (file, afile) = legc::write_case_files(dir, "case", &case, ai);
    match op {
        "LibDump" => {
            let argv = vec![
                "libdump".to_string(),
                file.to_string_lossy().to_string(),
                afile.to_string_lossy().to_string(),
                if debug { "1".into() } else { "0".into() },
            ];
            let me = std::env::current_exe().map_err(|e| e.to_string())?;
            let r = child::run(&me, &argv, hs, &Io::default()).map_err(|e| e.to_string())?;
            let obs = legc::parse_libdump(&r).ok_or("libdump output unreadable")?;
            if obs.key() != reference.key() {
                return Ok(Some(("MISMATCH".into(), format!("golden {} vs process {}", reference.key(), obs.key()))));
            }
            Ok(None)
        }
        _ => {
            let style: u8 = op.split("style=").nth(1).and_then(|s| s.parse().ok()).unwrap_or(0);
            let (argv, cwd) = legc::simc_argv(&file, debug, style);
            let io = if plan.is_empty() { Io { cwd, ..Io::default() } } else { Io { seed: None, plan: Some(plan.to_string()), log: None, stdout_file: None, cwd } };
            let r = child::run(&legc::simc_path(o), &argv, hs, &io).map_err(|e| e.to_string())?;
            Ok(legc::judge_simc(&reference, &r).map(|(c, d)| (c.to_string(), d)))
        }
    }
}

fn replay_c(o: &Opts, doc: &serde_json::Value, path: &str) -> i32 {
    let class = doc.get("class").and_then(|c| c.as_str()).unwrap_or("");
    let dir = scratch(o);
    let r = exec_c(o, doc, &dir);
    let _ = std::fs::remove_dir_all(&dir);
    match r {
        Err(e) => {
            eprintln!("replay: {e}");
            2
        }
        Ok(None) => {
            println!("replay: no violation");
            0
        }
        Ok(Some((c, d))) => {
            println!("replay: {c} - {d}");
            if c == class {
                println!("VIOLATION property=C19 replay={path}");
                1
            } else {
                println!("replay: class differs from the recorded one ({class})");
                3
            }
        }
    }
}

fn minimise_c(o: &Opts, mut doc: serde_json::Value, path: &str) -> i32 {
    let class = doc.get("class").and_then(|c| c.as_str()).unwrap_or("").to_string();
    let dir = scratch(o);
    let mut budget = 250;
    let fails = |d: &serde_json::Value, budget: &mut i32| -> bool {
        if *budget <= 0 {
            return false;
        }
        *budget -= 1;
        matches!(exec_c(o, d, &dir), Ok(Some((c, _))) if c == class)
    };
    if !fails(&doc, &mut budget) {
        println!("minimise: the file does not reproduce; left unchanged");
        let _ = std::fs::remove_dir_all(&dir);
        return 0;
    }
    // 1. fault plan entries
    let plan: Vec<String> = doc.get("io_plan").and_then(|p| p.as_str()).unwrap_or("").split(',').filter(|s| !s.is_empty()).map(|s| s.to_string()).collect();
    let faults_before = plan.len();
    let mut plan = plan;
    let mut i = plan.len();
    while i > 0 {
        i -= 1;
        let mut c = plan.clone();
        c.remove(i);
        let mut d = doc.clone();
        d["io_plan"] = serde_json::json!(c.join(","));
        if fails(&d, &mut budget) {
            plan = c;
            doc = d;
        }
    }
    // 2. hash seed 0
    {
        let mut d = doc.clone();
        d["hash_seeds"] = serde_json::json!([0]);
        if fails(&d, &mut budget) {
            doc = d;
        }
    }
    // 3. program text: drop lines (chunks first), reference recomputed for every candidate
    let text = doc["program"]["text"].as_str().unwrap_or("").to_string();
    let lines_before = text.lines().count();
    let mut lines: Vec<String> = text.lines().map(|s| s.to_string()).collect();
    let mut chunk = (lines.len() / 2).max(1);
    while chunk >= 1 && budget > 0 {
        let mut i = 0;
        while i < lines.len() && budget > 0 {
            let end = (i + chunk).min(lines.len());
            let mut c = lines.clone();
            c.drain(i..end);
            let mut d = doc.clone();
            d["program"]["text"] = serde_json::json!(c.join("\n"));
            if !c.is_empty() && fails(&d, &mut budget) {
                lines = c;
                doc = d;
            } else {
                i += chunk;
            }
        }
        if chunk == 1 {
            break;
        }
        chunk /= 2;
    }
    doc["minimised"] = serde_json::json!({"faults_before": faults_before, "faults_after": plan.len(), "lines_before": lines_before, "lines_after": lines.len()});
    std::fs::write(path, serde_json::to_string_pretty(&doc).unwrap()).ok();
    let _ = std::fs::remove_dir_all(&dir);
    println!("minimise: faults {faults_before} -> {}, lines {lines_before} -> {}", plan.len(), lines.len());
    0
}

// ------------------------------------------------------------------ C15

fn exec_c15(doc: &serde_json::Value, mask: u64) -> Option<crate::c15::Viol> {
    let map_seed: u64 = doc.get("map_seed").and_then(|s| s.as_str()).and_then(|s| s.parse().ok()).unwrap_or(0);
    let n_seeds = doc.get("n_seeds").and_then(|s| s.as_u64()).unwrap_or(4) as usize;
    let mut stats = crate::c15::MapStats::default();
    crate::c15::check_map(map_seed, mask, n_seeds, None, &mut stats)
}

/// The maps of one shard run in one process.  When a violation does not show on the map alone
/// (process-global state left by earlier maps), replay the shard's history up to that map.
fn exec_c15_with_history(doc: &serde_json::Value) -> Option<crate::c15::Viol> {
    let seed = doc.get("verif_seed").and_then(|s| s.as_u64())?;
    let run = doc.get("run").and_then(|s| s.as_u64())?;
    let shard = doc.get("shard").and_then(|s| s.as_u64())?;
    let shards = doc.get("shards").and_then(|s| s.as_u64())?;
    let n_seeds = doc.get("n_seeds").and_then(|s| s.as_u64()).unwrap_or(4) as usize;
    let mut last = None;
    for i in 0..=run {
        if i % shards != shard {
            continue;
        }
        let map_seed = simcore::prng::mix(seed ^ simcore::prng::tag("c15") ^ i);
        let mut stats = crate::c15::MapStats::default();
        let v = crate::c15::check_map(map_seed, u64::MAX, n_seeds, None, &mut stats);
        if i == run {
            last = v;
        }
    }
    last
}

fn replay_sweep(doc: &serde_json::Value, path: &str) -> i32 {
    let class = doc.get("class").and_then(|c| c.as_str()).unwrap_or("");
    let item = doc.get("item").and_then(|c| c.as_u64()).unwrap_or(0) as usize;
    let seed = doc.get("verif_seed").and_then(|c| c.as_u64()).unwrap_or(0);
    let small = crate::sweep::small_types();
    let mut st = crate::sweep::SweepStats::default();
    match crate::sweep::item(item, seed, &small, &mut st) {
        Ok(()) => {
            println!("replay: no violation");
            0
        }
        Err(v) => {
            println!("replay: {} - {}", v.class, v.detail);
            if v.class == class {
                println!("VIOLATION property=C15 replay={path}");
                1
            } else {
                3
            }
        }
    }
}

fn replay_c15(doc: &serde_json::Value, path: &str) -> i32 {
    if doc.get("kind").and_then(|k| k.as_str()) == Some("sweep") {
        return replay_sweep(doc, path);
    }
    let class = doc.get("class").and_then(|c| c.as_str()).unwrap_or("");
    let mask: u64 = doc.get("mask").and_then(|s| s.as_str()).and_then(|s| s.parse().ok()).unwrap_or(u64::MAX);
    let mut result = exec_c15(doc, mask);
    if result.is_none() {
        result = exec_c15_with_history(doc);
        if result.is_some() {
            println!("replay: the violation needs the history of its shard (maps before it in the same process)");
        }
    }
    match result {
        None => {
            println!("replay: no violation");
            0
        }
        Some(v) => {
            println!("replay: {} (hash seed {:x}, route {}) - {}", v.class, v.hash_seed, v.route, v.detail);
            if v.class == class {
                println!("VIOLATION property=C15 replay={path}");
                1
            } else {
                println!("replay: class differs from the recorded one ({class})");
                3
            }
        }
    }
}

fn minimise_c15(mut doc: serde_json::Value, path: &str) -> i32 {
    if doc.get("kind").and_then(|k| k.as_str()) == Some("sweep") {
        // a sweep item is one (type, value) pair already
        return 0;
    }
    let class = doc.get("class").and_then(|c| c.as_str()).unwrap_or("").to_string();
    let mut mask: u64 = doc.get("mask").and_then(|s| s.as_str()).and_then(|s| s.parse().ok()).unwrap_or(u64::MAX);
    let map_seed: u64 = doc.get("map_seed").and_then(|s| s.as_str()).and_then(|s| s.parse().ok()).unwrap_or(0);
    let before = crate::c15::gen_logical(map_seed, mask).entries.len();
    match exec_c15(&doc, mask) {
        Some(v) if v.class == class => {}
        _ => {
            println!("minimise: the file does not reproduce; left unchanged");
            return 0;
        }
    }
    for bit in 0..8 {
        let cand = mask & !(1u64 << bit);
        if cand == mask {
            continue;
        }
        if let Some(v) = exec_c15(&doc, cand) {
            if v.class == class {
                mask = cand;
                doc["detail"] = serde_json::json!(v.detail);
                doc["hash_seed"] = serde_json::json!(v.hash_seed.to_string());
                doc["route"] = serde_json::json!(v.route);
            }
        }
    }
    let logical = crate::c15::gen_logical(map_seed, mask);
    doc["mask"] = serde_json::json!(mask.to_string());
    doc["entries"] = serde_json::Value::Array(
        logical.entries.iter().map(|(n, t, v)| serde_json::json!({"name": n, "type": t.to_string(), "value": v.to_string()})).collect(),
    );
    doc["minimised"] = serde_json::json!({"names_before": before, "names_after": logical.entries.len()});
    std::fs::write(path, serde_json::to_string_pretty(&doc).unwrap()).ok();
    println!("minimise: names {before} -> {}", logical.entries.len());
    0
}

fn replay_g(o: &Opts, doc: &serde_json::Value, path: &str) -> i32 {
    let Some(case) = doc.get("program").and_then(Case::from_json) else { return 2 };
    let debug = doc.get("debug").and_then(|d| d.as_bool()).unwrap_or(false);
    let exact = doc.get("exact_index").and_then(|d| d.as_u64()).unwrap_or(0) as usize;
    let sup = doc.get("superset_index").and_then(|d| d.as_u64()).unwrap_or(0) as usize;
    let dir = scratch(o);
    let a = fresh_reference(&dir, &case, exact, debug);
    let b = fresh_reference(&dir, &case, sup, debug);
    let _ = std::fs::remove_dir_all(&dir);
    match (a, b) {
        (Some(a @ Outcome::Ok { .. }), Some(b @ Outcome::Ok { .. })) if a.key() != b.key() => {
            println!("replay: MISMATCH(ExtraArgs) - exact {} superset {}", a.key(), b.key());
            println!("VIOLATION property=C19 replay={path}");
            1
        }
        (Some(_), Some(_)) => {
            println!("replay: no violation");
            0
        }
        _ => 2,
    }
}

pub fn run(o: &Opts, minimise: bool) -> i32 {
    let Some(path) = o.rest.first().cloned() else {
        eprintln!("usage: simreal replay|minimise <file>");
        return 2;
    };
    let Some(doc) = read_doc(&path) else {
        eprintln!("cannot read {path}");
        return 2;
    };
    let quiet = o.rest.iter().any(|a| a == "--quiet");
    match (doc.get("leg").and_then(|l| l.as_str()), minimise) {
        (Some("A"), false) => replay_a(o, &doc, &path, quiet),
        (Some("A"), true) => minimise_a(o, doc, &path),
        (Some("C"), false) => replay_c(o, &doc, &path),
        (Some("C"), true) => minimise_c(o, doc, &path),
        (Some("C15"), false) => replay_c15(&doc, &path),
        (Some("G"), false) => replay_g(o, &doc, &path),
        (Some("G"), true) => 0,
        (Some("C15"), true) => minimise_c15(doc, &path),
        _ => {
            eprintln!("unknown leg in {path}");
            2
        }
    }
}
