//! S4: child processes with a fully specified environment.

use std::path::Path;
use std::process::{Command, Stdio};

pub fn shim() -> String {
    // the harness itself runs under the shim; children get the same one
    std::env::var("LD_PRELOAD").unwrap_or_else(|_| "/verif/build/libsimseam.so".to_string())
}

#[derive(Clone, Debug, Default)]
pub struct Io {
    /// Some(seed, rates) = rate driven faults
    pub seed: Option<(u64, String)>,
    /// explicit plan (replay / minimisation); overrides seed
    pub plan: Option<String>,
    pub log: Option<std::path::PathBuf>,
    /// stdout is this regular file instead of a pipe
    pub stdout_file: Option<std::path::PathBuf>,
    /// working directory of the child
    pub cwd: Option<std::path::PathBuf>,
}

#[derive(Clone, Debug)]
pub struct ChildResult {
    pub status: Option<i32>,
    pub stdout: Vec<u8>,
    pub stderr: Vec<u8>,
}

pub fn run(bin: &Path, argv: &[String], hash_seed: u64, io: &Io) -> std::io::Result<ChildResult> {
    let mut c = Command::new(bin);
    c.args(argv);
    c.env_clear();
    c.env("LD_PRELOAD", shim());
    c.env("SIMSEAM_HASH_SEED", hash_seed.to_string());
    c.env("RUST_BACKTRACE", "0");
    if let Some(plan) = &io.plan {
        c.env("SIMSEAM_IO_PLAN", plan);
    } else if let Some((s, rates)) = &io.seed {
        c.env("SIMSEAM_IO_SEED", s.to_string());
        c.env("SIMSEAM_IO_RATES", rates);
    }
    if let Some(l) = &io.log {
        let _ = std::fs::remove_file(l);
        c.env("SIMSEAM_IO_LOG", l);
    }
    // S6: the child's clock starts at a seeded time and ticks by seeded amounts
    c.env("SIMSEAM_CLOCK", (hash_seed ^ 0xC10C).to_string());
    // irrelevant environment, seeded: nothing in it may influence the result
    {
        let mut st = hash_seed ^ 0xE4F;
        let mut next = || simcore::prng::splitmix64(&mut st);
        // HOME / TMPDIR / XDG_CACHE_HOME live in a sandbox that all children of one check share (so
        // state that a change persists on disk is seen by later processes, but never leaves /verif/build)
        let sandbox = std::env::current_exe()
            .ok()
            .and_then(|p| p.ancestors().find(|a| a.file_name().map(|n| n == "build").unwrap_or(false)).map(|b| b.join("out/sandbox")))
            .unwrap_or_else(|| std::path::PathBuf::from("/verif/build/out/sandbox"));
        for d in ["home", "tmp", "cache"] {
            let _ = std::fs::create_dir_all(sandbox.join(d));
        }
        let sb = |sub: &str| sandbox.join(sub).to_string_lossy().to_string();
        let r = next();
        match r % 4 {
            0 => {}
            1 => {
                c.env("HOME", sb("missing-home"));
            }
            _ => {
                c.env("HOME", sb("home"));
            }
        }
        match (r >> 8) % 4 {
            0 => {}
            1 => {
                c.env("TMPDIR", sb("missing-tmp"));
            }
            _ => {
                c.env("TMPDIR", sb("tmp"));
            }
        }
        if (r >> 16) % 3 == 0 {
            c.env("XDG_CACHE_HOME", sb("cache"));
        }
        let vars: [(&str, &[&str]); 7] = [
            ("USER", &["root", "nobody"]),
            ("LANG", &["C", "en_US.UTF-8", "de_DE.UTF-8", "tr_TR.UTF-8"]),
            ("LC_ALL", &["C", "POSIX", "en_US.UTF-8"]),
            ("TZ", &["UTC", "Asia/Kathmandu", "America/St_Johns"]),
            ("TERM", &["xterm-256color", "dumb"]),
            ("COLUMNS", &["20", "80", "500"]),
            ("NO_COLOR", &["1"]),
        ];
        for (k, vals) in vars {
            let r = next();
            if r % 3 != 0 {
                c.env(k, vals[(r >> 8) as usize % vals.len()]);
            }
        }
    }
    // S5: no ASLR in children; the heap layout is skewed by a seeded amount instead
    c.env("SIMSEAM_HEAP_SKEW", (hash_seed.wrapping_mul(0x9E37_79B9_7F4A_7C15) >> 7).to_string());
    unsafe {
        use std::os::unix::process::CommandExt;
        c.pre_exec(|| {
            extern "C" {
                fn personality(persona: std::os::raw::c_ulong) -> std::os::raw::c_int;
            }
            const ADDR_NO_RANDOMIZE: std::os::raw::c_ulong = 0x0040000;
            personality(ADDR_NO_RANDOMIZE);
            Ok(())
        });
    }
    if let Some(d) = &io.cwd {
        c.current_dir(d);
    }
    c.stdin(Stdio::null());
    match &io.stdout_file {
        Some(p) => {
            c.stdout(Stdio::from(std::fs::File::create(p)?));
        }
        None => {
            c.stdout(Stdio::piped());
        }
    }
    c.stderr(Stdio::piped());
    let out = c.output()?;
    let stdout = match &io.stdout_file {
        Some(p) => std::fs::read(p)?,
        None => out.stdout,
    };
    Ok(ChildResult { status: out.status.code(), stdout, stderr: out.stderr })
}

/// Fired faults from the shim log: (plan string, per-kind counts, intercepted reads, writes)
pub fn read_log(path: &Path) -> (String, std::collections::BTreeMap<String, u64>, u64, u64) {
    let mut plan = Vec::new();
    let mut counts = std::collections::BTreeMap::new();
    let (mut nr, mut nw) = (0, 0);
    if let Ok(text) = std::fs::read_to_string(path) {
        for line in text.lines() {
            let f: Vec<&str> = line.split(' ').collect();
            if f.len() != 4 {
                continue;
            }
            if f[0] == "T" {
                nr = f[1].parse().unwrap_or(0);
                nw = f[2].parse().unwrap_or(0);
                continue;
            }
            let key = format!("{}_{}", if f[0] == "r" { "read" } else { "write" }, f[2]);
            *counts.entry(key).or_insert(0) += 1;
            if f[2] == "short" {
                plan.push(format!("{}{}:{}={}", f[0], f[1], f[2], f[3]));
            } else {
                plan.push(format!("{}{}:{}", f[0], f[1], f[2]));
            }
        }
    }
    (plan.join(","), counts, nr, nw)
}
