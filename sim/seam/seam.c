/*
 * libsimseam.so - LD_PRELOAD seams for the simfony simulation.
 *
 * S1  OS entropy: getrandom / getentropy / syscall(SYS_getrandom) are served from a
 *     SplitMix64 stream keyed by SIMSEAM_HASH_SEED, so every std RandomState (and with it
 *     every HashMap iteration order) in the process is a function of that seed.
 *     simseam_reseed(u64) restarts the stream (used to enter a new "hash epoch": std caches
 *     the keys per OS thread, so the caller continues on a freshly spawned thread).
 * S2  read(2) on fds >= 3 and write(2) on fd 1: fault injection, either from a per-mille
 *     rate table driven by a SplitMix64 stream keyed by SIMSEAM_IO_SEED, or from an explicit
 *     plan SIMSEAM_IO_PLAN (used for replay and minimisation).
 *
 *     transparent faults  (POSIX allows them at any time; a correct program absorbs them):
 *        short  - the call is forwarded with a reduced count (>= 1)
 *        eintr  - -1/EINTR without touching the fd (never more than 3 in a row per kind)
 *     non-transparent faults (recorded, never judged):
 *        eio (read), enospc / epipe (write)
 *
 * Environment:
 *   SIMSEAM_HASH_SEED=<u64>         absent: entropy calls pass through
 *   SIMSEAM_IO_SEED=<u64>           enables rate driven faults
 *   SIMSEAM_IO_RATES=a,b,c,d,e,f,g  per-mille: short_r,eintr_r,short_w,eintr_w,eio_r,enospc_w,epipe_w
 *   SIMSEAM_IO_PLAN=r2:short=3,w1:eintr,...   <kind><n>:<fault>[=arg], n = 1-based index of the
 *                                   intercepted call of that kind; overrides the seed
 *   SIMSEAM_IO_LOG=<path>           one line per fired fault "kind n fault arg", appended at once
 *
 * Nothing here reads a clock, a pid or an address.  Logging draws nothing from a PRNG.
 */
#define _GNU_SOURCE
#include <dlfcn.h>
#include <errno.h>
#include <fcntl.h>
#include <stdarg.h>
#include <stdint.h>
#include <stdio.h>
#include <stdlib.h>
#include <string.h>
#include <sys/stat.h>
#include <sys/syscall.h>
#include <sys/types.h>
#include <unistd.h>

static int g_init = 0;

/* ---- S1 ---- */
static int g_hash_on = 0;
static uint64_t g_hash_state = 0;
static uint64_t g_hash_draws = 0; /* bytes served */

/* ---- S2 ---- */
static int g_io_on = 0;     /* 1 = rates, 2 = plan */
static uint64_t g_io_state = 0;
static int g_rates[7] = {0, 0, 0, 0, 0, 0, 0};
static int g_log_fd = -1;
static unsigned long g_nread = 0, g_nwrite = 0;
static int g_eintr_run_r = 0, g_eintr_run_w = 0;

enum { F_NONE = 0, F_SHORT, F_EINTR, F_EIO, F_ENOSPC, F_EPIPE };
struct plan_ent { char kind; unsigned long n; int fault; long arg; };
#define MAX_PLAN 256
static struct plan_ent g_plan[MAX_PLAN];
static int g_nplan = 0;

static ssize_t (*real_read)(int, void *, size_t) = NULL;
static ssize_t (*real_write)(int, const void *, size_t) = NULL;
static long (*real_syscall)(long, ...) = NULL;
static ssize_t (*real_getrandom)(void *, size_t, unsigned int) = NULL;

static uint64_t splitmix64(uint64_t *s) {
    uint64_t z = (*s += 0x9E3779B97F4A7C15ULL);
    z = (z ^ (z >> 30)) * 0xBF58476D1CE4E5B9ULL;
    z = (z ^ (z >> 27)) * 0x94D049BB133111EBULL;
    return z ^ (z >> 31);
}

static const char *fault_name(int f) {
    switch (f) {
    case F_SHORT: return "short";
    case F_EINTR: return "eintr";
    case F_EIO: return "eio";
    case F_ENOSPC: return "enospc";
    case F_EPIPE: return "epipe";
    default: return "none";
    }
}

static int fault_from_name(const char *s, size_t n) {
    if (n == 5 && !strncmp(s, "short", 5)) return F_SHORT;
    if (n == 5 && !strncmp(s, "eintr", 5)) return F_EINTR;
    if (n == 3 && !strncmp(s, "eio", 3)) return F_EIO;
    if (n == 6 && !strncmp(s, "enospc", 6)) return F_ENOSPC;
    if (n == 5 && !strncmp(s, "epipe", 5)) return F_EPIPE;
    return F_NONE;
}

static void parse_plan(const char *p) {
    while (*p && g_nplan < MAX_PLAN) {
        struct plan_ent e;
        e.kind = *p++;
        if (e.kind != 'r' && e.kind != 'w') break;
        char *end;
        e.n = strtoul(p, &end, 10);
        if (end == p || *end != ':') break;
        p = end + 1;
        const char *q = p;
        while (*q && *q != ',' && *q != '=') q++;
        e.fault = fault_from_name(p, (size_t)(q - p));
        e.arg = 1;
        p = q;
        if (*p == '=') {
            e.arg = strtol(p + 1, &end, 10);
            p = end;
        }
        if (e.fault != F_NONE) g_plan[g_nplan++] = e;
        if (*p == ',') p++;
    }
}

static void init(void) {
    if (g_init) return;
    g_init = 1;
    real_read = dlsym(RTLD_NEXT, "read");
    real_write = dlsym(RTLD_NEXT, "write");
    real_syscall = dlsym(RTLD_NEXT, "syscall");
    real_getrandom = dlsym(RTLD_NEXT, "getrandom");
    const char *s = getenv("SIMSEAM_HASH_SEED");
    if (s && *s) {
        g_hash_on = 1;
        g_hash_state = strtoull(s, NULL, 10);
    }
    const char *plan = getenv("SIMSEAM_IO_PLAN");
    const char *ios = getenv("SIMSEAM_IO_SEED");
    if (plan) {
        g_io_on = 2;
        parse_plan(plan);
    } else if (ios && *ios) {
        g_io_on = 1;
        g_io_state = strtoull(ios, NULL, 10);
        const char *r = getenv("SIMSEAM_IO_RATES");
        if (r) {
            for (int i = 0; i < 7 && *r; i++) {
                char *end;
                g_rates[i] = (int)strtol(r, &end, 10);
                r = (*end == ',') ? end + 1 : end;
            }
        }
    }
    /* S5: address-space layout.  The driver starts children with ASLR disabled
     * (personality ADDR_NO_RANDOMIZE), so addresses are a function of (binary, argv, environment);
     * SIMSEAM_HEAP_SKEW=<u64> then shifts the heap by a seeded number of leaked blocks, which makes
     * the layout one more seeded dimension instead of an uncontrolled one. */
    const char *sk = getenv("SIMSEAM_HEAP_SKEW");
    if (sk && *sk) {
        uint64_t st = strtoull(sk, NULL, 10);
        if (st != 0) {
            int n = (int)(splitmix64(&st) % 48);
            for (int i = 0; i < n; i++) {
                size_t sz = 16 + (size_t)(splitmix64(&st) % 8192);
                volatile char *p = malloc(sz);
                if (p) p[0] = 1; /* leaked on purpose */
            }
        }
    }
    const char *lp = getenv("SIMSEAM_IO_LOG");
    if (lp && *lp && g_io_on) g_log_fd = open(lp, O_WRONLY | O_CREAT | O_APPEND | O_CLOEXEC, 0644);
}

__attribute__((constructor)) static void ctor(void) { init(); }

static void log_fault(char kind, unsigned long n, int fault, long arg) {
    if (g_log_fd < 0) return;
    char buf[96];
    int len = snprintf(buf, sizeof buf, "%c %lu %s %ld\n", kind, n, fault_name(fault), arg);
    if (len > 0) real_write(g_log_fd, buf, (size_t)len);
}

/* ---------------- S1 ---------------- */
static void fill(void *buf, size_t len) {
    unsigned char *p = buf;
    size_t i = 0;
    while (i < len) {
        uint64_t v = splitmix64(&g_hash_state);
        for (int k = 0; k < 8 && i < len; k++, i++) p[i] = (unsigned char)(v >> (8 * k));
    }
    g_hash_draws += len;
}

void simseam_reseed(uint64_t seed) {
    init();
    g_hash_on = 1;
    g_hash_state = seed;
}

uint64_t simseam_draws(void) { return g_hash_draws; }

int simseam_active(void) {
    init();
    return g_hash_on;
}

ssize_t getrandom(void *buf, size_t len, unsigned int flags) {
    init();
    if (g_hash_on) {
        fill(buf, len);
        return (ssize_t)len;
    }
    if (real_getrandom) return real_getrandom(buf, len, flags);
    return real_syscall(SYS_getrandom, buf, len, flags);
}

int getentropy(void *buf, size_t len) {
    init();
    if (len > 256) {
        errno = EIO;
        return -1;
    }
    if (g_hash_on) {
        fill(buf, len);
        return 0;
    }
    ssize_t r = getrandom(buf, len, 0);
    return r == (ssize_t)len ? 0 : -1;
}

long syscall(long number, ...) {
    init();
    va_list ap;
    va_start(ap, number);
    long a = va_arg(ap, long), b = va_arg(ap, long), c = va_arg(ap, long);
    long d = va_arg(ap, long), e = va_arg(ap, long), f = va_arg(ap, long);
    va_end(ap);
    if (number == SYS_getrandom && g_hash_on) {
        fill((void *)a, (size_t)b);
        return b;
    }
    return real_syscall(number, a, b, c, d, e, f);
}

/* ---------------- S2 ---------------- */
/* decide the fault for the n-th intercepted call of `kind`; *arg receives the fault argument */
static int decide(char kind, unsigned long n, size_t count, long *arg) {
    *arg = 0;
    if (g_io_on == 2) {
        for (int i = 0; i < g_nplan; i++)
            if (g_plan[i].kind == kind && g_plan[i].n == n) {
                *arg = g_plan[i].arg;
                return g_plan[i].fault;
            }
        return F_NONE;
    }
    if (g_io_on != 1) return F_NONE;
    /* always exactly two draws per intercepted call, so that a fault never shifts later draws */
    uint64_t d1 = splitmix64(&g_io_state);
    uint64_t d2 = splitmix64(&g_io_state);
    int roll = (int)(d1 % 1000);
    int *run = kind == 'r' ? &g_eintr_run_r : &g_eintr_run_w;
    int f = F_NONE;
    if (kind == 'r') {
        if (roll < g_rates[0]) f = F_SHORT;
        else if (roll < g_rates[0] + g_rates[1]) f = F_EINTR;
        else if (roll < g_rates[0] + g_rates[1] + g_rates[4]) f = F_EIO;
    } else {
        if (roll < g_rates[2]) f = F_SHORT;
        else if (roll < g_rates[2] + g_rates[3]) f = F_EINTR;
        else if (roll < g_rates[2] + g_rates[3] + g_rates[5]) f = F_ENOSPC;
        else if (roll < g_rates[2] + g_rates[3] + g_rates[5] + g_rates[6]) f = F_EPIPE;
    }
    if (f == F_EINTR) {
        if (*run >= 3) f = F_NONE; /* a transparent fault must stay transparent */
        else (*run)++;
    }
    if (f != F_EINTR) *run = 0;
    if (f == F_SHORT) {
        if (count <= 1) f = F_NONE;
        else {
            /* mostly tiny pieces (1..16), sometimes a large fraction */
            if ((d2 & 3) == 0) *arg = (long)(1 + (d2 >> 8) % (count - 1));
            else *arg = (long)(1 + (d2 >> 8) % 16);
        }
    }
    return f;
}

ssize_t read(int fd, void *buf, size_t count) {
    init();
    if (!g_io_on || fd < 3 || fd == g_log_fd) return real_read(fd, buf, count);
    unsigned long n = ++g_nread;
    long arg;
    int f = decide('r', n, count, &arg);
    switch (f) {
    case F_SHORT:
        if (count > 1 && arg >= 1) {
            size_t c = (size_t)arg < count ? (size_t)arg : count - 1;
            /* a reduced count that is still >= what a regular file has left would not shorten
             * anything (a reader asking for 64 KiB of an 8 KiB file): scale it into the remainder.
             * A logged (replayed) count is always below the remainder and passes unchanged. */
            {
                struct stat st;
                off_t pos;
                if (fstat(fd, &st) == 0 && S_ISREG(st.st_mode) && (pos = lseek(fd, 0, SEEK_CUR)) >= 0 && st.st_size > pos) {
                    size_t rem = (size_t)(st.st_size - pos);
                    if (rem > 1 && c >= rem) c = 1 + c % (rem - 1);
                }
            }
            log_fault('r', n, f, (long)c);
            return real_read(fd, buf, c);
        }
        break;
    case F_EINTR:
        log_fault('r', n, f, 0);
        errno = EINTR;
        return -1;
    case F_EIO:
        log_fault('r', n, f, 0);
        errno = EIO;
        return -1;
    default:
        break;
    }
    return real_read(fd, buf, count);
}

ssize_t write(int fd, const void *buf, size_t count) {
    init();
    if (!g_io_on || fd != 1) return real_write(fd, buf, count);
    unsigned long n = ++g_nwrite;
    long arg;
    int f = decide('w', n, count, &arg);
    switch (f) {
    case F_SHORT:
        if (count > 1 && arg >= 1) {
            size_t c = (size_t)arg < count ? (size_t)arg : count - 1;
            log_fault('w', n, f, (long)c);
            return real_write(fd, buf, c);
        }
        break;
    case F_EINTR:
        log_fault('w', n, f, 0);
        errno = EINTR;
        return -1;
    case F_ENOSPC:
        log_fault('w', n, f, 0);
        errno = ENOSPC;
        return -1;
    case F_EPIPE:
        log_fault('w', n, f, 0);
        errno = EPIPE;
        return -1;
    default:
        break;
    }
    return real_write(fd, buf, count);
}

/* totals line: how many calls were intercepted (written on normal exit only) */
__attribute__((destructor)) static void dtor(void) {
    if (g_log_fd < 0) return;
    char buf[96];
    int len = snprintf(buf, sizeof buf, "T %lu %lu totals\n", g_nread, g_nwrite);
    if (len > 0) real_write(g_log_fd, buf, (size_t)len);
}

/* ---------------- S6: clock ---------------- */
/* simfony has no clock.  If a change introduces one (a timestamp in an id, a time-based cache
 * expiry, a "seed" from the time), two processes - or two calls in one process - see different
 * times.  With SIMSEAM_CLOCK=<u64> every clock read returns a seeded base plus a seeded,
 * strictly increasing offset, so "what time it is" becomes one more seeded dimension. */
#include <sys/time.h>
#include <time.h>

static int g_clock_on = -1;
static uint64_t g_clock_state = 0;
static int64_t g_clock_ns = 0;
static uint64_t g_clock_reads = 0;

static int clock_seam(void) {
    if (g_clock_on < 0) {
        const char *s = getenv("SIMSEAM_CLOCK");
        if (s && *s) {
            g_clock_state = strtoull(s, NULL, 10);
            uint64_t st = g_clock_state;
            /* base between 2020-09-13 and about ten years later */
            g_clock_ns = (int64_t)(1600000000ULL + splitmix64(&st) % 315360000ULL) * 1000000000LL;
            g_clock_on = 1;
        } else {
            g_clock_on = 0;
        }
    }
    return g_clock_on;
}

static int64_t clock_tick(void) {
    /* 1 us .. ~1 s per read, sometimes a jump of hours */
    uint64_t r = splitmix64(&g_clock_state);
    int64_t step = 1000 + (int64_t)(r % 1000000000ULL);
    if ((r >> 40) % 64 == 0) step += 3600LL * 1000000000LL * (int64_t)(1 + (r >> 50) % 48);
    g_clock_ns += step;
    g_clock_reads++;
    return g_clock_ns;
}

uint64_t simseam_clock_reads(void) { return g_clock_reads; }

int clock_gettime(clockid_t clk, struct timespec *ts) {
    static int (*real)(clockid_t, struct timespec *) = NULL;
    if (!clock_seam() || !ts) {
        if (!real) real = dlsym(RTLD_NEXT, "clock_gettime");
        return real(clk, ts);
    }
    int64_t t = clock_tick();
    if (clk == CLOCK_MONOTONIC || clk == CLOCK_MONOTONIC_RAW || clk == CLOCK_BOOTTIME
#ifdef CLOCK_MONOTONIC_COARSE
        || clk == CLOCK_MONOTONIC_COARSE
#endif
    ) {
        t -= 1600000000LL * 1000000000LL; /* monotonic clocks count from an arbitrary origin */
    }
    ts->tv_sec = t / 1000000000LL;
    ts->tv_nsec = t % 1000000000LL;
    return 0;
}

int gettimeofday(struct timeval *tv, void *tz) {
    static int (*real)(struct timeval *, void *) = NULL;
    if (!clock_seam() || !tv) {
        if (!real) real = dlsym(RTLD_NEXT, "gettimeofday");
        return real(tv, tz);
    }
    int64_t t = clock_tick();
    tv->tv_sec = t / 1000000000LL;
    tv->tv_usec = (t % 1000000000LL) / 1000;
    return 0;
}

time_t time(time_t *out) {
    static time_t (*real)(time_t *) = NULL;
    if (!clock_seam()) {
        if (!real) real = dlsym(RTLD_NEXT, "time");
        return real(out);
    }
    time_t t = (time_t)(clock_tick() / 1000000000LL);
    if (out) *out = t;
    return t;
}
