#!/usr/bin/env python3
"""Re-run the quick checks against every change kept under /verif/seeded.

For each seeded/<id>/patch.diff: refuse unless /repo is clean, `git -C /repo apply`, run the quick
check(s), `git -C /repo checkout -- .`.  Property-breaking changes must give exit 1 with a VIOLATION
line, behaviour-preserving ones exit 0 for both checks.  Writes seeded/RECHECK.json.
"""
import json
import os
import subprocess
import sys
import time

VERIF = os.path.dirname(os.path.dirname(os.path.abspath(__file__)))
REPO = "/repo"


def sh(cmd, cwd=None, timeout=7200):
    p = subprocess.run(cmd, cwd=cwd, stdout=subprocess.PIPE, stderr=subprocess.STDOUT, timeout=timeout)
    return p.returncode, p.stdout.decode("utf-8", "replace")


def main():
    only = sys.argv[1:]
    rc, out = sh(["git", "-C", REPO, "status", "--porcelain", "--untracked-files=no"])
    if out.strip():
        print("/repo is dirty; refusing")
        return 2
    rc, head = sh(["git", "-C", VERIF, "rev-parse", "--short", "HEAD"])
    results = []
    bad = 0
    sdir = os.path.join(VERIF, "seeded")
    for sid in sorted(os.listdir(sdir)):
        d = os.path.join(sdir, sid)
        patch = os.path.join(d, "patch.diff")
        if not os.path.isfile(patch):
            continue
        if only and not any(o in sid for o in only):
            continue
        meta = json.load(open(os.path.join(d, "meta.json")))
        preserving = "behaviour-preserving" in sid
        props = ["C19", "C15"] if preserving else [meta.get("breaks_property", "C19")]
        rc, out = sh(["git", "-C", REPO, "apply", patch])
        if rc != 0:
            print(f"{sid}: patch does not apply: {out}")
            bad += 1
            continue
        res = {}
        try:
            for p in props:
                t = time.time()
                rc, out = sh([os.path.join(VERIF, "check"), p, "quick"], cwd=VERIF)
                cls = next((l.strip() for l in out.splitlines() if l.strip().startswith("class=")), "")
                res[p] = {"exit": rc, "first": cls[:160], "wall_s": round(time.time() - t)}
        finally:
            sh(["git", "-C", REPO, "checkout", "--", "."])
        ok = all(r["exit"] == 0 for r in res.values()) if preserving else all(r["exit"] == 1 for r in res.values())
        if not ok:
            bad += 1
        results.append({"id": sid, "expected": "silent" if preserving else "violation", "ok": ok, "result": res})
        print(("ok   " if ok else "FAIL ") + sid + "  " + json.dumps(res), flush=True)
    rdir = os.path.join(VERIF, "replays")
    for f in os.listdir(rdir) if os.path.isdir(rdir) else []:
        if f.endswith(".json"):
            os.remove(os.path.join(rdir, f))
    if not only:
        seed = os.environ.get("VERIF_SEED", "")
        name = "RECHECK.json" if not seed else f"RECHECK-seed{seed}.json"
        json.dump({"verif_commit": head.strip(), "verif_seed": seed or "default", "results": results}, open(os.path.join(sdir, name), "w"), indent=1)
    print(f"recheck: {len(results) - bad}/{len(results)} as expected")
    return 0 if bad == 0 else 1


if __name__ == "__main__":
    sys.exit(main())
