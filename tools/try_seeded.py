#!/usr/bin/env python3
"""Confirm a seeded change delivered by a sub-agent and run the checks against it.

  tools/try_seeded.py <worktree> <seeded-id> <property> [--skip-confirm]

1. confirmation, in the sub-agent's scratch worktree (outside /repo and /verif):
   source tree reset to HEAD, patch.diff applied with `git apply`;
   the pinned suite `cargo test --workspace --no-fail-fast --offline` must pass;
   SEEDED/run_demo.sh must FAIL with the change and PASS with it reverted.
2. detection: `git -C /repo apply patch.diff`, `./check <property> quick`, `git -C /repo checkout -- .`
3. the change is kept as /verif/seeded/<id>/ (patch.diff, demonstration, meta.json with what was run).
"""
import json
import os
import shutil
import subprocess
import sys
import time

VERIF = os.path.dirname(os.path.dirname(os.path.abspath(__file__)))
REPO = "/repo"


def sh(cmd, cwd=None, timeout=3600, env=None):
    p = subprocess.run(cmd, cwd=cwd, stdout=subprocess.PIPE, stderr=subprocess.STDOUT, timeout=timeout, shell=isinstance(cmd, str), env=env)
    return p.returncode, p.stdout.decode("utf-8", "replace")


def main():
    wt, sid, prop = sys.argv[1:4]
    skip = "--skip-confirm" in sys.argv
    seeded = os.path.join(wt, "SEEDED")
    patch = os.path.join(seeded, "patch.diff")
    meta = json.load(open(os.path.join(seeded, "meta.json")))
    ran = []
    env = dict(os.environ, CARGO_NET_OFFLINE="true")
    confirm = {}
    if not skip:
        # reset sources (keep SEEDED/ and build output), apply the patch
        sh(["git", "checkout", "--", "."], cwd=wt)
        rc, out = sh(["git", "status", "--porcelain", "--untracked-files=no"], cwd=wt)
        assert not out.strip(), out
        rc, out = sh(["git", "apply", patch], cwd=wt)
        confirm["patch_applies"] = rc == 0
        if rc != 0:
            print("patch does not apply:", out)
            return 2
        t = time.time()
        rc, out = sh(["cargo", "test", "--workspace", "--no-fail-fast", "--offline"], cwd=wt, env=env)
        passed = sum(int(l.split("ok.")[1].split("passed")[0]) for l in out.splitlines() if l.startswith("test result: ok."))
        confirm["suite_with_change"] = {"exit": rc, "passed": passed, "wall_s": round(time.time() - t)}
        ran.append("cargo test --workspace --no-fail-fast --offline (with change): exit %d, %d passed" % (rc, passed))
        print(ran[-1], flush=True)
        rc, out = sh(["bash", os.path.join(seeded, "run_demo.sh")], cwd=wt, env=env)
        confirm["demo_with_change_exit"] = rc
        ran.append("SEEDED/run_demo.sh (with change): exit %d" % rc)
        print(ran[-1], flush=True)
        sh(["git", "apply", "-R", patch], cwd=wt)
        # a demo may leave its own files in tests/ or examples/: that is fine, sources must be clean
        rc2, out2 = sh(["bash", os.path.join(seeded, "run_demo.sh")], cwd=wt, env=env)
        confirm["demo_without_change_exit"] = rc2
        ran.append("SEEDED/run_demo.sh (change reverted): exit %d" % rc2)
        print(ran[-1], flush=True)
        sh(["git", "apply", patch], cwd=wt)
        confirm["confirmed"] = (confirm["suite_with_change"]["exit"] == 0 and rc != 0 and rc2 == 0)
    # detection
    rc, out = sh(["git", "-C", REPO, "status", "--porcelain", "--untracked-files=no"])
    if out.strip():
        print("/repo is dirty; refusing")
        return 2
    rc, out = sh(["git", "-C", REPO, "apply", patch])
    if rc != 0:
        print("patch does not apply to /repo:", out)
        return 2
    detection = {}
    try:
        for p in prop.split(","):
            t = time.time()
            rc, out = sh([os.path.join(VERIF, "check"), p, "quick"], cwd=VERIF)
            lines = [l for l in out.splitlines() if l.startswith("VIOLATION") or l.strip().startswith("class=") or l.startswith("HARNESS")]
            detection[p] = {"exit": rc, "wall_s": round(time.time() - t), "lines": lines[:8]}
            ran.append("./check %s quick (change applied to /repo): exit %d" % (p, rc))
            print(ran[-1], *lines[:6], sep="\n   ", flush=True)
    finally:
        sh(["git", "-C", REPO, "checkout", "--", "."])
    # replay files of seeded changes are not findings of the tree
    rdir = os.path.join(VERIF, "replays")
    kept = None
    for f in sorted(os.listdir(rdir)) if os.path.isdir(rdir) else []:
        if f.endswith(".json"):
            if kept is None:
                kept = f
                os.makedirs(os.path.join(VERIF, "seeded", sid), exist_ok=True)
                shutil.copy(os.path.join(rdir, f), os.path.join(VERIF, "seeded", sid, "replay-example.json"))
            os.remove(os.path.join(rdir, f))
    dest = os.path.join(VERIF, "seeded", sid)
    os.makedirs(dest, exist_ok=True)
    for f in os.listdir(seeded):
        if f.endswith(".log") or f in ("target",):
            continue
        src = os.path.join(seeded, f)
        if os.path.isfile(src) and os.path.getsize(src) < 200_000:
            shutil.copy(src, os.path.join(dest, f))
    meta_out = {
        "id": sid,
        "breaks_property": prop,
        "summary": meta.get("summary"),
        "needs_to_manifest": meta.get("needs_to_manifest"),
        "files_changed": meta.get("files_changed"),
        "author": "independent sub-agent given only the property text and a scratch worktree",
        "confirmed_by_me": confirm,
        "what_was_run": ran,
        "detection": detection,
        "detected": any(d["exit"] == 1 for d in detection.values()),
    }
    json.dump(meta_out, open(os.path.join(dest, "meta.json"), "w"), indent=1)
    print("detected:", meta_out["detected"], "confirmed:", confirm.get("confirmed"))
    return 0


if __name__ == "__main__":
    sys.exit(main())
