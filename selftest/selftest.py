"""Self-tests of the simulator: determinism and sensitivity.

selftest-determinism [n_seeds]
    For n seeds (default 24): run every leg twice in separate processes, at worker counts 1, 4 and 16,
    and compare the complete event logs (the per-shard logs are merged by run index, so the result
    must not depend on sharding).  Zero differences are required.

selftest-sensitivity [name-filter] [--with-tests]
    For every patch under selftest/mutants: refuse unless /repo is clean, apply it to /repo, run the
    quick check of the property it breaks, require exit 1 with a VIOLATION line (M*) or exit 0 (S*,
    behaviour-preserving edits), then revert /repo.  --with-tests additionally builds each mutant in
    a scratch worktree outside /repo and /verif and requires the pinned test suite to pass.
"""
import json
import os
import shutil
import subprocess
import sys
import time

MUTANTS = {
    # name prefix -> (property, checks that must fire)
    "M1-": ["C19"],
    "M2-": ["C19"],
    "M3-": ["C15"],
    "M4-": ["C15"],
    "M4b-": ["C15"],
    "M5a-": ["C19"],
    "M5b-": ["C19"],
    "M5c-": ["C19"],
    "M6-": ["C19"],
    "M6b-": ["C19"],
    "M7-": ["C19"],
    "M8-": ["C19"],
    "M9-": ["C15"],
    "M10-": ["C15"],
    "M11-": ["C15"],
    "M12-": ["C19"],
    "M13-": ["C19"],
    "M14-": ["C19"],
}


def sh(cmd, cwd=None, env=None, timeout=None):
    p = subprocess.run(cmd, cwd=cwd, env=env, stdout=subprocess.PIPE, stderr=subprocess.STDOUT, timeout=timeout)
    return p.returncode, p.stdout.decode("utf-8", "replace")


def repo_clean(repo):
    rc, out = sh(["git", "-C", repo, "status", "--porcelain", "--untracked-files=no"])
    return rc == 0 and not out.strip()


def sensitivity(args, drv):
    repo = drv.REPO
    verif = drv.VERIF
    with_tests = "--with-tests" in args
    filt = [a for a in args if not a.startswith("--")]
    mdir = os.path.join(verif, "selftest", "mutants")
    names = sorted(f for f in os.listdir(mdir) if f.endswith(".patch"))
    if filt:
        names = [n for n in names if any(f in n for f in filt)]
    if not repo_clean(repo):
        print("selftest-sensitivity: /repo has uncommitted changes; refusing")
        return 2
    results = []
    failures = 0
    for n in names:
        patch = os.path.join(mdir, n)
        silent = n.startswith("S")
        props = ["C19", "C15"] if silent else next((v for k, v in MUTANTS.items() if n.startswith(k)), ["C19", "C15"])
        tests_ok = None
        if with_tests:
            wt = "/tmp/simfony-selftest-wt"
            sh(["git", "-C", repo, "worktree", "remove", "--force", wt])
            rc, out = sh(["git", "-C", repo, "worktree", "add", "-q", wt, "HEAD"])
            try:
                rc, out = sh(["git", "-C", wt, "apply", patch])
                if rc != 0:
                    print(f"{n}: patch does not apply: {out}")
                    failures += 1
                    continue
                env = dict(os.environ, CARGO_NET_OFFLINE="true", CARGO_TARGET_DIR="/tmp/simfony-selftest-target")
                rc, out = sh(["cargo", "test", "--workspace", "--no-fail-fast", "--offline"], cwd=wt, env=env, timeout=1800)
                tests_ok = rc == 0
            finally:
                sh(["git", "-C", repo, "worktree", "remove", "--force", wt])
        rc, out = sh(["git", "-C", repo, "apply", patch])
        if rc != 0:
            print(f"{n}: patch does not apply to {repo}: {out}")
            failures += 1
            continue
        try:
            for prop in props:
                t = time.time()
                env = dict(os.environ)
                rc, out = sh([os.path.join(verif, "check"), prop, "quick"], cwd=verif, env=env, timeout=3600)
                fired = rc == 1 and f"VIOLATION property={prop}" in out
                ok = (rc == 0 and "VIOLATION" not in out) if silent else fired
                first = next((l for l in out.splitlines() if l.startswith("VIOLATION") or l.startswith("HARNESS")), "")
                cls = next((l.strip() for l in out.splitlines() if l.strip().startswith("class=")), "")
                results.append({"mutant": n, "check": prop, "exit": rc, "expected": "silent" if silent else "violation", "ok": ok,
                                "first": first, "class": cls, "tests_pass": tests_ok, "wall_s": round(time.time() - t, 1)})
                print(f"{'ok  ' if ok else 'FAIL'} {n:45s} {prop} exit={rc} {cls} {first} tests_pass={tests_ok}", flush=True)
                if not ok:
                    failures += 1
                    print(out[-1500:])
        finally:
            sh(["git", "-C", repo, "checkout", "--", "."])
    if with_tests:
        shutil.rmtree("/tmp/simfony-selftest-target", ignore_errors=True)
    # replay files of mutants are not findings of the tree: remove them
    rdir = os.path.join(verif, "replays")
    keep = os.path.join(verif, "selftest", "last-sensitivity.json")
    json.dump(results, open(keep, "w"), indent=1)
    for f in os.listdir(rdir) if os.path.isdir(rdir) else []:
        if f.endswith(".json"):
            os.remove(os.path.join(rdir, f))
    # restore the evidence of the unchanged tree (and show silence on it)
    for prop in ("C15", "C19"):
        rc, out = sh([os.path.join(verif, "check"), prop, "quick"], cwd=verif, timeout=3600)
        print(f"unchanged tree: {prop} exit={rc}")
        if rc != 0:
            failures += 1
            print(out[-1500:])
    print(f"selftest-sensitivity: {len(results) - failures}/{len(results)} as expected")
    return 0 if failures == 0 else 1


def collect_logs(out, legs):
    """Merge per-shard logs into per-run blocks keyed by the run header, independent of sharding."""
    blocks = {}
    for f in sorted(os.listdir(out)):
        if not f.endswith(".log"):
            continue
        leg = f.split("-")[0]
        if leg not in legs:
            continue
        cur = None
        for line in open(os.path.join(out, f), errors="replace"):
            line = line.rstrip("\n")
            parts = line.split("\t")
            if leg == "A" and len(parts) > 1 and parts[1].startswith("run "):
                cur = ("A", parts[1])
                blocks[cur] = []
            elif leg == "B" and len(parts) > 1 and parts[1].startswith("run "):
                cur = ("B", parts[1])
                blocks.setdefault(cur, [])
            elif leg == "C" and len(parts) > 1:
                cur = ("C", parts[1])
                blocks.setdefault(cur, [])
            elif leg == "C15" and len(parts) > 1:
                cur = ("C15", parts[1])
                blocks.setdefault(cur, [])
            if cur is not None:
                blocks[cur].append(line)
    return blocks


def determinism(args, drv):
    n_seeds = int(args[0]) if args and args[0].isdigit() else 24
    drv.build_all()
    verif = drv.VERIF
    base = os.path.join(drv.BUILD, "out", "determinism")
    shutil.rmtree(base, ignore_errors=True)
    diffs = 0
    compared = 0
    t0 = time.time()
    for i in range(n_seeds):
        seed = 1000 + 7919 * i
        runs = []
        for (tag, workers) in (("a", 16), ("b", 16), ("c", 4), ("d", 1)):
            # worker count 1 only on a subset (it is slow): every 6th seed
            if workers == 1 and i % 6 != 0:
                continue
            out = os.path.join(base, f"{seed}-{tag}")
            os.makedirs(out)
            drv.golden(out, seed, "quick")
            common = ["--seed", str(seed), "--tier", "quick", "--out", out, "--repo", drv.REPO, "--verif", verif]
            jobs = []
            for k in range(workers):
                jobs.append((f"A-{k}", [drv.SIMREAL, "legA", "--shard", f"{k}/{workers}"] + common))
                jobs.append((f"B-{k}", [drv.SIMSCHED, "legB", "--shard", f"{k}/{workers}"] + common))
                jobs.append((f"C-{k}", [drv.SIMREAL, "legC", "--shard", f"{k}/{workers}"] + common))
                jobs.append((f"C15-{k}", [drv.SIMREAL, "c15", "--shard", f"{k}/{workers}"] + common))
            for name, rc, o, wall in drv.run_shards(jobs, workers=16):
                if rc not in (0, 1):
                    print(f"shard {name} failed: {o[-2000:]}")
                    return 2
            runs.append((tag, workers, collect_logs(out, ("A", "B", "C", "C15")), json.load(open(os.path.join(out, "golden.json")))["table"]))
        ref = runs[0]
        for other in runs[1:]:
            compared += 1
            if ref[3] != other[3]:
                diffs += 1
                print(f"seed {seed}: golden tables differ between run {ref[0]} and {other[0]}")
            if ref[2].keys() != other[2].keys():
                diffs += 1
                print(f"seed {seed}: different sets of runs between {ref[0]} (w={ref[1]}) and {other[0]} (w={other[1]})")
                continue
            for k in ref[2]:
                if ref[2][k] != other[2][k]:
                    diffs += 1
                    print(f"seed {seed}: event log of {k} differs between {ref[0]} (w={ref[1]}) and {other[0]} (w={other[1]}):")
                    for a, b in zip(ref[2][k], other[2][k]):
                        if a != b:
                            print("   <", a[:300])
                            print("   >", b[:300])
                            break
                    break
        for tag, _, _, _ in runs:
            shutil.rmtree(os.path.join(base, f"{seed}-{tag}"), ignore_errors=True)
        print(f"seed {seed}: {len(runs)} executions compared, {sum(len(v) for v in ref[2].values())} log lines, diffs so far {diffs}", flush=True)
    shutil.rmtree(base, ignore_errors=True)
    # replay files written by these runs (none expected on a tree where the properties hold)
    print(f"selftest-determinism: {n_seeds} seeds, {compared} pairwise comparisons, {diffs} differences, {time.time() - t0:.0f}s")
    json.dump({"seeds": n_seeds, "comparisons": compared, "differences": diffs},
              open(os.path.join(verif, "selftest", "last-determinism.json"), "w"))
    return 0 if diffs == 0 else 1


def main(cmd, args, drv):
    if cmd == "selftest-sensitivity":
        return sensitivity(args, drv)
    if cmd == "selftest-determinism":
        return determinism(args, drv)
    print(__doc__)
    return 2
